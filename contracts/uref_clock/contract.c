/* Contract unit: include/upipe/uref_clock.h  (property C11)
 *
 * Spec: for a clock domain d (0 sys, 1 prog, 2 orig) the stored date D, its
 * 2-bit type T and the three shared delays define four partial views
 *   cr, dts, pts, rap  : (defined, value)
 * transcribed from the property: dts = cr + cr_dts_delay, pts = dts +
 * dts_pts_delay, rap = cr - rap_cr_delay, arithmetic modulo 2^64, a delay equal
 * to UINT64_MAX being "unset".  Every accessor is specified against these views;
 * "for every view" is a ghost index (g_dom, g_kind).
 * The entries never call spec functions (DFCC instruments the contract-side and
 * entry-side call trees differently), ghosts are bound in the preconditions.
 */
#include <upipe/ubase.h>
#include <upipe/uref.h>
#include <upipe/uref_clock.h>
#include "vspec.h"

enum { K_CR = 0, K_DTS = 1, K_PTS = 2, K_RAP = 3 };

static struct uref g_old;        /* structure at entry */
static int g_dom, g_kind;        /* ghost view index */
static uint64_t g_out_old;       /* *date_p at entry */
static struct uref g_old2;       /* second structure at entry (cmp) */

static inline uint64_t spec_date(const struct uref *u, int dom)
{
    return dom == 0 ? u->date_sys : dom == 1 ? u->date_prog : u->date_orig;
}
static inline int spec_shift(int dom)
{
    return dom == 0 ? UREF_FLAG_DATE_SYS_SHIFT : dom == 1 ? UREF_FLAG_DATE_PROG_SHIFT : UREF_FLAG_DATE_ORIG_SHIFT;
}
static inline int spec_type(const struct uref *u, int dom)
{
    return (int)((u->flags >> spec_shift(dom)) & 0x3);
}
/* the view `kind` of domain `dom`: returns whether it is defined, value in *v */
static inline bool spec_view(const struct uref *u, int dom, int kind, uint64_t *v)
{
    uint64_t D = spec_date(u, dom);
    int T = spec_type(u, dom);
    bool dp = u->dts_pts_delay != UINT64_MAX, cd = u->cr_dts_delay != UINT64_MAX,
         rc = u->rap_cr_delay != UINT64_MAX;
    uint64_t cr = 0, dts = 0, pts = 0;
    bool cr_d = false, dts_d = false, pts_d = false;
    switch (T) {
    case UREF_DATE_CR:
        cr = D; cr_d = true;
        dts = D + u->cr_dts_delay; dts_d = cd;
        pts = dts + u->dts_pts_delay; pts_d = cd && dp;
        break;
    case UREF_DATE_DTS:
        dts = D; dts_d = true;
        cr = D - u->cr_dts_delay; cr_d = cd;
        pts = D + u->dts_pts_delay; pts_d = dp;
        break;
    case UREF_DATE_PTS:
        pts = D; pts_d = true;
        dts = D - u->dts_pts_delay; dts_d = dp;
        cr = dts - u->cr_dts_delay; cr_d = dp && cd;
        break;
    default:
        break;
    }
    switch (kind) {
    case K_CR:  *v = cr;  return cr_d;
    case K_DTS: *v = dts; return dts_d;
    case K_PTS: *v = pts; return pts_d;
    default:    *v = cr - u->rap_cr_delay; return cr_d && rc;
    }
}
static inline bool spec_same_uref(const struct uref *a, const struct uref *b)
{
    return a->flags == b->flags && a->date_sys == b->date_sys && a->date_prog == b->date_prog &&
           a->date_orig == b->date_orig && a->dts_pts_delay == b->dts_pts_delay &&
           a->cr_dts_delay == b->cr_dts_delay && a->rap_cr_delay == b->rap_cr_delay &&
           a->priv == b->priv && a->ubuf == b->ubuf && a->udict == b->udict && a->mgr == b->mgr;
}
/* the raw date and type of every domain other than dom are as at entry */
static inline bool spec_other_domains_raw(const struct uref *u, int dom)
{
    for (int d = 0; d < 3; d++)
        if (d != dom && (spec_date(u, d) != spec_date(&g_old, d) || spec_type(u, d) != spec_type(&g_old, d)))
            return false;
    uint64_t mask = ~(UINT64_C(3) << spec_shift(dom));
    return (u->flags & mask) == (g_old.flags & mask) && u->priv == g_old.priv &&
           u->ubuf == g_old.ubuf && u->udict == g_old.udict && u->mgr == g_old.mgr;
}
static inline bool spec_ghost_ok(void) { return g_dom >= 0 && g_dom < 3 && g_kind >= 0 && g_kind < 4; }
/* the ghost view, if it was defined at entry, is defined now with the same value */
static inline bool spec_ghost_view_kept(const struct uref *u)
{
    uint64_t a, b;
    if (!spec_view(&g_old, g_dom, g_kind, &a)) return true;
    return spec_view(u, g_dom, g_kind, &b) && a == b;
}

/* ---- getters: get_{cr,dts,pts,rap}_{sys,prog,orig} ------------------------ */
static inline bool post_get_ret(struct uref *uref, uint64_t *date_p, int ret, int dom, int kind)
{
    uint64_t v;
    return ret == (spec_view(&g_old, dom, kind, &v) ? UBASE_ERR_NONE : UBASE_ERR_INVALID);
}
static inline bool post_get_value(struct uref *uref, uint64_t *date_p, int ret, int dom, int kind)
{
    uint64_t v;
    if (date_p == NULL) return true;
    if (spec_view(&g_old, dom, kind, &v)) return *date_p == v;
    return *date_p == g_out_old;
}
static inline bool post_get_pure(struct uref *uref, uint64_t *date_p, int ret, int dom, int kind)
{
    return spec_same_uref(uref, &g_old);
}
#define POSTS_get(P) P(post_get_ret) P(post_get_value) P(post_get_pure)

/* ---- get_date / set_date / delete_date / add_date -------------------------- */
static inline bool post_get_date(const struct uref *uref, uint64_t *date_p, int *type_p, int dom)
{
    return *date_p == spec_date(&g_old, dom) && *type_p == spec_type(&g_old, dom) &&
           spec_same_uref(uref, &g_old);
}
static inline bool pre_set_date(struct uref *uref, uint64_t date, int type)
{
    return type >= UREF_DATE_NONE && type <= UREF_DATE_PTS;
}
/* stored as (date, type); a date set as one type reads back as that value of that type */
static inline bool post_set_date_stored(struct uref *uref, uint64_t date, int type, int dom)
{
    uint64_t v;
    if (spec_date(uref, dom) != date || spec_type(uref, dom) != type) return false;
    if (type == UREF_DATE_NONE) return true;
    return spec_view(uref, dom, type - 1, &v) && v == date;
}
static inline bool post_set_date_frame(struct uref *uref, uint64_t date, int type, int dom)
{
    return spec_other_domains_raw(uref, dom) && uref->rap_cr_delay == g_old.rap_cr_delay;
}
/* moving to a later stage records the delay: the earlier-stage view that was readable stays readable with its value */
static inline bool post_set_date_delay(struct uref *uref, uint64_t date, int type, int dom)
{
    int T = spec_type(&g_old, dom);
    uint64_t a, b;
    if (T == UREF_DATE_NONE || type <= T) return true;
    /* stored type T (cr or dts) was readable as value D; after storing a later stage it still is,
     * provided the delay it needs is representable */
    if (T == UREF_DATE_CR && type == UREF_DATE_PTS && g_old.dts_pts_delay == UINT64_MAX) return true;
    if (!spec_view(uref, dom, T - 1, &b))
        return (T == UREF_DATE_CR ? uref->cr_dts_delay : uref->dts_pts_delay) == UINT64_MAX;
    return b == spec_date(&g_old, dom);
}
#define POSTS_set_date(P) P(post_set_date_stored) P(post_set_date_frame) P(post_set_date_delay)

static inline bool post_delete_date(struct uref *uref, int dom)
{
    return spec_date(uref, dom) == UINT64_MAX && spec_type(uref, dom) == UREF_DATE_NONE &&
           spec_other_domains_raw(uref, dom) && uref->dts_pts_delay == g_old.dts_pts_delay &&
           uref->cr_dts_delay == g_old.cr_dts_delay && uref->rap_cr_delay == g_old.rap_cr_delay;
}
static inline bool post_add_date(struct uref *uref, int64_t delay, int dom)
{
    uint64_t D = spec_date(&g_old, dom);
    return spec_date(uref, dom) == (D != UINT64_MAX ? D + (uint64_t)delay : D) &&
           uref->flags == g_old.flags && spec_other_domains_raw(uref, dom) &&
           uref->dts_pts_delay == g_old.dts_pts_delay &&
           uref->cr_dts_delay == g_old.cr_dts_delay && uref->rap_cr_delay == g_old.rap_cr_delay;
}
/* every view of the domain that was readable is shifted by the delay; views of the other domains keep their value */
static inline bool post_add_date_views(struct uref *uref, int64_t delay, int dom)
{
    uint64_t a, b;
    if (!spec_view(&g_old, g_dom, g_kind, &a)) return true;
    if (!spec_view(uref, g_dom, g_kind, &b)) return false;
    if (g_dom == dom && spec_date(&g_old, dom) != UINT64_MAX) return b == a + (uint64_t)delay;
    return b == a;
}

/* ---- rebase ---------------------------------------------------------------- */
static inline bool post_rebase_ret(struct uref *uref, int ret, int dom, int kind)
{
    uint64_t v;
    return ret == (spec_view(&g_old, dom, kind, &v) ? UBASE_ERR_NONE : UBASE_ERR_INVALID);
}
/* re-basing changes none of the dates that could be read before (any domain, any view) */
static inline bool post_rebase_views(struct uref *uref, int ret, int dom, int kind)
{
    return spec_ghost_view_kept(uref);
}
/* success: now stored as that type; failure: nothing changed */
static inline bool post_rebase_type(struct uref *uref, int ret, int dom, int kind)
{
    if (ret != UBASE_ERR_NONE) return spec_same_uref(uref, &g_old);
    return spec_type(uref, dom) == kind + 1 && spec_other_domains_raw(uref, dom) &&
           uref->rap_cr_delay == g_old.rap_cr_delay;
}
#define POSTS_rebase(P) P(post_rebase_ret) P(post_rebase_views) P(post_rebase_type)

/* ---- set_rap --------------------------------------------------------------- */
/* a rap can only be recorded at or before the clock reference */
static inline bool post_set_rap_ret(struct uref *uref, uint64_t rap, int ret, int dom)
{
    uint64_t cr;
    bool ok = spec_view(&g_old, dom, K_CR, &cr) && rap <= cr;
    return ret == (ok ? UBASE_ERR_NONE : UBASE_ERR_INVALID);
}
static inline bool post_set_rap_value(struct uref *uref, uint64_t rap, int ret, int dom)
{
    uint64_t cr, v;
    if (ret != UBASE_ERR_NONE) return spec_same_uref(uref, &g_old);
    spec_view(&g_old, dom, K_CR, &cr);
    if (uref->rap_cr_delay != cr - rap) return false;
    /* reads back, unless the delay is the one value that encodes "unset" */
    if (cr - rap != UINT64_MAX && !(spec_view(uref, dom, K_RAP, &v) && v == rap)) return false;
    return uref->flags == g_old.flags && uref->date_sys == g_old.date_sys &&
           uref->date_prog == g_old.date_prog && uref->date_orig == g_old.date_orig &&
           uref->dts_pts_delay == g_old.dts_pts_delay && uref->cr_dts_delay == g_old.cr_dts_delay;
}
#define POSTS_set_rap(P) P(post_set_rap_ret) P(post_set_rap_value)

/* ---- cmp ------------------------------------------------------------------- */
static inline bool post_cmp(struct uref *uref1, struct uref *uref2, int ret, int dom, int kind)
{
    uint64_t a, b;
    bool da = spec_view(&g_old, dom, kind, &a), db = spec_view(&g_old2, dom, kind, &b);
    int want = (!da && !db) ? 0 : (!da || !db) ? -1 : (a == b ? 0 : 1);
    return ret == want && spec_same_uref(uref1, &g_old) && spec_same_uref(uref2, &g_old2);
}

/* ======================= contracts (verification build) ===================== */
#ifndef VNATIVE
#define C_GET(dt, dv, DOM, KIND) \
static inline int uref_clock_get_##dt##_##dv(struct uref *uref, uint64_t *date_p) \
__CPROVER_requires(date_p == NULL || g_out_old == *date_p) \
__CPROVER_assigns(date_p != NULL: *date_p) \
__CPROVER_ensures(post_get_ret(uref, date_p, __CPROVER_return_value, DOM, KIND)) \
__CPROVER_ensures(post_get_value(uref, date_p, __CPROVER_return_value, DOM, KIND)) \
__CPROVER_ensures(post_get_pure(uref, date_p, __CPROVER_return_value, DOM, KIND));
#define C_SET(dt, dv, DOM, KIND) \
static inline void uref_clock_set_##dt##_##dv(struct uref *uref, uint64_t date) \
__CPROVER_assigns(uref->flags, uref->date_##dv, uref->cr_dts_delay, uref->dts_pts_delay) \
__CPROVER_ensures(post_set_date_stored(uref, date, KIND + 1, DOM)) \
__CPROVER_ensures(post_set_date_frame(uref, date, KIND + 1, DOM)) \
__CPROVER_ensures(post_set_date_delay(uref, date, KIND + 1, DOM));
#define C_REBASE(dt, dv, DOM, KIND) \
static inline int uref_clock_rebase_##dt##_##dv(struct uref *uref) \
__CPROVER_requires(spec_ghost_ok()) \
__CPROVER_assigns(uref->flags, uref->date_##dv, uref->cr_dts_delay, uref->dts_pts_delay) \
__CPROVER_ensures(post_rebase_ret(uref, __CPROVER_return_value, DOM, KIND)) \
__CPROVER_ensures(post_rebase_views(uref, __CPROVER_return_value, DOM, KIND)) \
__CPROVER_ensures(post_rebase_type(uref, __CPROVER_return_value, DOM, KIND));
#define C_CMP(dt, dv, DOM, KIND) \
static inline int uref_clock_cmp_##dt##_##dv(struct uref *uref1, struct uref *uref2) \
__CPROVER_assigns() \
__CPROVER_ensures(post_cmp(uref1, uref2, __CPROVER_return_value, DOM, KIND));
#define C_DOMAIN(dv, DOM) \
static inline void uref_clock_get_date_##dv(const struct uref *uref, uint64_t *date_p, int *type_p) \
__CPROVER_assigns(*date_p, *type_p) \
__CPROVER_ensures(post_get_date(uref, date_p, type_p, DOM)); \
static inline void uref_clock_set_date_##dv(struct uref *uref, uint64_t date, int type) \
__CPROVER_requires(pre_set_date(uref, date, type)) \
__CPROVER_assigns(uref->flags, uref->date_##dv, uref->cr_dts_delay, uref->dts_pts_delay) \
__CPROVER_ensures(post_set_date_stored(uref, date, type, DOM)) \
__CPROVER_ensures(post_set_date_frame(uref, date, type, DOM)) \
__CPROVER_ensures(post_set_date_delay(uref, date, type, DOM)); \
static inline void uref_clock_delete_date_##dv(struct uref *uref) \
__CPROVER_assigns(uref->flags, uref->date_##dv) \
__CPROVER_ensures(post_delete_date(uref, DOM)); \
static inline void uref_clock_add_date_##dv(struct uref *uref, int64_t delay) \
__CPROVER_requires(spec_ghost_ok()) \
__CPROVER_assigns(uref->date_##dv) \
__CPROVER_ensures(post_add_date(uref, delay, DOM)) \
__CPROVER_ensures(post_add_date_views(uref, delay, DOM)); \
static inline int uref_clock_set_rap_##dv(struct uref *uref, uint64_t rap) \
__CPROVER_assigns(uref->rap_cr_delay) \
__CPROVER_ensures(post_set_rap_ret(uref, rap, __CPROVER_return_value, DOM)) \
__CPROVER_ensures(post_set_rap_value(uref, rap, __CPROVER_return_value, DOM)); \
C_GET(cr, dv, DOM, K_CR) C_GET(dts, dv, DOM, K_DTS) C_GET(pts, dv, DOM, K_PTS) C_GET(rap, dv, DOM, K_RAP) \
C_SET(cr, dv, DOM, K_CR) C_SET(dts, dv, DOM, K_DTS) C_SET(pts, dv, DOM, K_PTS) \
C_REBASE(cr, dv, DOM, K_CR) C_REBASE(dts, dv, DOM, K_DTS) C_REBASE(pts, dv, DOM, K_PTS) \
C_CMP(cr, dv, DOM, K_CR) C_CMP(dts, dv, DOM, K_DTS) C_CMP(pts, dv, DOM, K_PTS)
C_DOMAIN(sys, 0)
C_DOMAIN(prog, 1)
C_DOMAIN(orig, 2)
#endif

/* ================================ entries =================================== */
/* a uref whose every clock-related field is an unconstrained named input */
#define BUILD_UREF(u) \
    struct uref u; memset(&u, 0, sizeof(u)); \
    { VIN(uint64_t, u##_flags); VIN(uint64_t, u##_date_sys); VIN(uint64_t, u##_date_prog); \
      VIN(uint64_t, u##_date_orig); VIN(uint64_t, u##_dts_pts_delay); VIN(uint64_t, u##_cr_dts_delay); \
      VIN(uint64_t, u##_rap_cr_delay); VIN(uint64_t, u##_priv); \
      u.flags = u##_flags; u.date_sys = u##_date_sys; u.date_prog = u##_date_prog; u.date_orig = u##_date_orig; \
      u.dts_pts_delay = u##_dts_pts_delay; u.cr_dts_delay = u##_cr_dts_delay; \
      u.rap_cr_delay = u##_rap_cr_delay; u.priv = u##_priv; }
#define GHOST_VIEW() VIN(int, gdom); VIN(int, gkind); VASSUME(gdom >= 0 && gdom < 3 && gkind >= 0 && gkind < 4); \
    g_dom = gdom; g_kind = gkind

#define H_GET(dt, dv, DOM, KIND) \
void h_get_##dt##_##dv(void) { \
    BUILD_UREF(u); struct uref *uref = &u; g_old = u; \
    VIN(bool, null_p); VIN(uint64_t, out); uint64_t *date_p = null_p ? NULL : &out; g_out_old = out; \
    int ret = uref_clock_get_##dt##_##dv(uref, date_p); \
    VPOST(post_get_ret(uref, date_p, ret, DOM, KIND)); VPOST(post_get_value(uref, date_p, ret, DOM, KIND)); \
    VPOST(post_get_pure(uref, date_p, ret, DOM, KIND)); VCANARY(); }
#define H_SET(dt, dv, DOM, KIND) \
void h_set_##dt##_##dv(void) { \
    BUILD_UREF(u); struct uref *uref = &u; g_old = u; VIN(uint64_t, date); \
    uref_clock_set_##dt##_##dv(uref, date); \
    VPOST(post_set_date_stored(uref, date, KIND + 1, DOM)); VPOST(post_set_date_frame(uref, date, KIND + 1, DOM)); \
    VPOST(post_set_date_delay(uref, date, KIND + 1, DOM)); VCANARY(); }
#define H_REBASE(dt, dv, DOM, KIND) \
void h_rebase_##dt##_##dv(void) { \
    BUILD_UREF(u); struct uref *uref = &u; g_old = u; GHOST_VIEW(); \
    int ret = uref_clock_rebase_##dt##_##dv(uref); \
    VPOST(post_rebase_ret(uref, ret, DOM, KIND)); VPOST(post_rebase_views(uref, ret, DOM, KIND)); \
    VPOST(post_rebase_type(uref, ret, DOM, KIND)); VCANARY(); }
#define H_CMP(dt, dv, DOM, KIND) \
void h_cmp_##dt##_##dv(void) { \
    BUILD_UREF(u); BUILD_UREF(v); struct uref *uref1 = &u, *uref2 = &v; g_old = u; g_old2 = v; \
    int ret = uref_clock_cmp_##dt##_##dv(uref1, uref2); \
    VPOST(post_cmp(uref1, uref2, ret, DOM, KIND)); VCANARY(); }
/* lemma over the getter contracts (getters replaced by their contracts): whichever way the date is
 * stored, the dates the accessors return satisfy dts = cr + cr_dts_delay, pts = dts + dts_pts_delay,
 * rap = cr - rap_cr_delay */
#define H_LEMMA(dv, DOM) \
void h_lemma_views_##dv(void) { \
    BUILD_UREF(u); struct uref *uref = &u; g_old = u; \
    uint64_t cr = 0, dts = 0, pts = 0, rap = 0; \
    g_out_old = cr;  int e_cr  = uref_clock_get_cr_##dv(uref, &cr); \
    g_out_old = dts; int e_dts = uref_clock_get_dts_##dv(uref, &dts); \
    g_out_old = pts; int e_pts = uref_clock_get_pts_##dv(uref, &pts); \
    g_out_old = rap; int e_rap = uref_clock_get_rap_##dv(uref, &rap); \
    if (ubase_check(e_cr) && ubase_check(e_dts)) \
        VASSERT(dts == cr + u.cr_dts_delay, "lemma: dts = cr + cr_dts_delay"); \
    if (ubase_check(e_dts) && ubase_check(e_pts)) \
        VASSERT(pts == dts + u.dts_pts_delay, "lemma: pts = dts + dts_pts_delay"); \
    if (ubase_check(e_cr) && ubase_check(e_pts)) \
        VASSERT(pts == cr + u.cr_dts_delay + u.dts_pts_delay, "lemma: pts = cr + both delays"); \
    if (ubase_check(e_rap)) \
        VASSERT(ubase_check(e_cr) && rap == cr - u.rap_cr_delay, "lemma: rap = cr - rap_cr_delay"); \
    VCANARY(); }
#define H_DOMAIN(dv, DOM) \
void h_get_date_##dv(void) { \
    BUILD_UREF(u); const struct uref *uref = &u; g_old = u; VIN(uint64_t, out); VIN(int, tout); \
    uint64_t *date_p = &out; int *type_p = &tout; \
    uref_clock_get_date_##dv(uref, date_p, type_p); \
    VPOST(post_get_date(uref, date_p, type_p, DOM)); VCANARY(); } \
void h_set_date_##dv(void) { \
    BUILD_UREF(u); struct uref *uref = &u; g_old = u; VIN(uint64_t, date); VIN(int, type); \
    VPRE(pre_set_date(uref, date, type)); \
    uref_clock_set_date_##dv(uref, date, type); \
    VPOST(post_set_date_stored(uref, date, type, DOM)); VPOST(post_set_date_frame(uref, date, type, DOM)); \
    VPOST(post_set_date_delay(uref, date, type, DOM)); VCANARY(); } \
void h_delete_date_##dv(void) { \
    BUILD_UREF(u); struct uref *uref = &u; g_old = u; \
    uref_clock_delete_date_##dv(uref); \
    VPOST(post_delete_date(uref, DOM)); VCANARY(); } \
void h_add_date_##dv(void) { \
    BUILD_UREF(u); struct uref *uref = &u; g_old = u; VIN(int64_t, delay); GHOST_VIEW(); \
    uref_clock_add_date_##dv(uref, delay); \
    VPOST(post_add_date(uref, delay, DOM)); VPOST(post_add_date_views(uref, delay, DOM)); VCANARY(); } \
void h_set_rap_##dv(void) { \
    BUILD_UREF(u); struct uref *uref = &u; g_old = u; VIN(uint64_t, rap); \
    int ret = uref_clock_set_rap_##dv(uref, rap); \
    VPOST(post_set_rap_ret(uref, rap, ret, DOM)); VPOST(post_set_rap_value(uref, rap, ret, DOM)); VCANARY(); } \
H_GET(cr, dv, DOM, K_CR) H_GET(dts, dv, DOM, K_DTS) H_GET(pts, dv, DOM, K_PTS) H_GET(rap, dv, DOM, K_RAP) \
H_SET(cr, dv, DOM, K_CR) H_SET(dts, dv, DOM, K_DTS) H_SET(pts, dv, DOM, K_PTS) \
H_REBASE(cr, dv, DOM, K_CR) H_REBASE(dts, dv, DOM, K_DTS) H_REBASE(pts, dv, DOM, K_PTS) \
H_CMP(cr, dv, DOM, K_CR) H_CMP(dts, dv, DOM, K_DTS) H_CMP(pts, dv, DOM, K_PTS) \
H_LEMMA(dv, DOM)
H_DOMAIN(sys, 0)
H_DOMAIN(prog, 1)
H_DOMAIN(orig, 2)

#ifdef VENTRY
VMAIN(VENTRY)
#endif
