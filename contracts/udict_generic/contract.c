/* Contract unit: include/upipe/udict.h  udict_import / udict_copy / udict_cmp   (property C10: "after any sequence of set,
 * delete, duplicate, import and copy operations, looking up a (name, type) pair returns exactly the value last stored
 * ... comparison reports equality exactly when ...")
 *
 * These three are written against the manager interface only (iterate / get / set / alloc / free), so they are checked
 * against an ABSTRACT dictionary behind that interface: K slots, each absent or holding a key (name from a table of
 * names — one a prefix of another, plus "no name" as shorthand types have — and a type) with a value of 0..4 octets.
 * The abstract dictionary IS the contract the udict_inline unit establishes for the real storage (get returns what
 * was last set, other keys untouched, iterate visits each present key once); here it is an assumed contract.
 *   cmp(a, b) == 0   <==>  a and b hold the same keys with the same sizes and octets (both directions);
 *   import(dst, src) : OK ==> every key of src is in dst with src's value; keys of dst that src lacks keep their value;
 *                      src is untouched; on error (dst full / allocation) keys that src lacks are still untouched;
 *   copy(mgr, src)   : a new dictionary equal to src, or NULL with nothing left allocated.
 */
#include <string.h>
#ifndef VNATIVE
/* libc models for this unit: CBMC 6.11's built-in memcpy (variable-length temporary + array_replace) loses octets when the
 * destination is one of several objects and the length is symbolic (measured here: 1 of 2 octets copied; the native replay
 * disagreed) — plain octet loops instead (lengths are at most 4 here) */
static void *vs_memcpy(void *d, const void *s, size_t n) { unsigned char *x = d; const unsigned char *y = s; for (size_t i = 0; i < n; i++) x[i] = y[i]; return d; }
static int vs_memcmp(const void *a, const void *b, size_t n) { const unsigned char *x = a, *y = b; for (size_t i = 0; i < n; i++) if (x[i] != y[i]) return x[i] < y[i] ? -1 : 1; return 0; }
#define memcpy vs_memcpy
#define memcmp vs_memcmp
#endif
#include <upipe/ubase.h>
#include <upipe/udict.h>
#include "vspec.h"
#include "vstub_choice.h"

#ifndef K
#define K 3
#endif
#define NNAMES 4                      /* "a", "ab", "b", and no name */
#define VMAX 4
static const char g_n0[] = "a", g_n1[] = "ab", g_n2[] = "b";
#define NAME(i) ((i) == 0 ? g_n0 : (i) == 1 ? g_n1 : (i) == 2 ? g_n2 : NULL)
struct aslot { bool present; uint8_t name; uint8_t type; uint8_t size; };
/* (values live in separate members selected by ?: — CBMC 6.11 mis-evaluates p[0] for p = arr[symbolic].array_member, see DESIGN §11.1) */
struct adict { struct udict udict; struct aslot e[K]; };
/* value storage: one top-level array per (dictionary, slot) (memcpy of a symbolic length into an array embedded in a struct
 * copies one octet only in CBMC 6.11's model: measured, DESIGN §11.1) */
static uint8_t g_v10[VMAX], g_v11[VMAX], g_v12[VMAX], g_v20[VMAX], g_v21[VMAX], g_v22[VMAX], g_v30[VMAX], g_v31[VMAX], g_v32[VMAX];
static struct adict g_d1, g_d2, g_d3;
#define VALP(d, k) ((d) == &g_d1 ? ((k) == 0 ? g_v10 : (k) == 1 ? g_v11 : g_v12) : (d) == &g_d2 ? ((k) == 0 ? g_v20 : (k) == 1 ? g_v21 : g_v22) : \
                                   ((k) == 0 ? g_v30 : (k) == 1 ? g_v31 : g_v32))
static struct udict_mgr g_amgr;
static bool g_stub_bad; static int g_allocs, g_live;
static int name_id(const char *name)
{
    if (name == NULL) return 3;
    if (name == g_n0) return 0; if (name == g_n1) return 1; if (name == g_n2) return 2;
    /* a caller-built string: compare by content */
    if (!strcmp(name, g_n0)) return 0; if (!strcmp(name, g_n1)) return 1; if (!strcmp(name, g_n2)) return 2;
    return -1;
}
static int a_find(struct adict *d, int nm, int type)
{
    for (int k = 0; k < K; k++) if (d->e[k].present && d->e[k].name == nm && d->e[k].type == type) return k;
    return -1;
}
static int stub_a_control(struct udict *udict, int command, va_list args)
{
    struct adict *d = container_of(udict, struct adict, udict);
    switch (command) {
    case UDICT_ITERATE: {
        const char **name_p = va_arg(args, const char **); enum udict_type *type_p = va_arg(args, enum udict_type *);
        int from = 0;
        if (*type_p != UDICT_TYPE_END) {
            int cur = a_find(d, name_id(*name_p), *type_p);
            if (cur < 0) { g_stub_bad = true; return UBASE_ERR_INVALID; }
            from = cur + 1;
        }
        for (int k = 0; k < K; k++) if (k >= from && d->e[k].present) { *name_p = NAME(d->e[k].name); *type_p = (enum udict_type)d->e[k].type; return UBASE_ERR_NONE; }
        *name_p = NULL; *type_p = UDICT_TYPE_END;
        return UBASE_ERR_NONE;
    }
    case UDICT_GET: {
        const char *name = va_arg(args, const char *); enum udict_type type = va_arg(args, enum udict_type);
        size_t *size_p = va_arg(args, size_t *); const uint8_t **p = va_arg(args, const uint8_t **);
        int k = a_find(d, name_id(name), type);
        if (k < 0) return UBASE_ERR_INVALID;
        if (size_p) *size_p = d->e[k].size; if (p) *p = VALP(d, k);
        return UBASE_ERR_NONE;
    }
    case UDICT_SET: {
        const char *name = va_arg(args, const char *); enum udict_type type = va_arg(args, enum udict_type);
        size_t size = va_arg(args, size_t); uint8_t **p = va_arg(args, uint8_t **);
        int nm = name_id(name);
        if (nm < 0 || size > VMAX) return UBASE_ERR_INVALID;
        int k = a_find(d, nm, type);
        if (k < 0) {
            if (VS_CHOICE(set_fails) & 1) return UBASE_ERR_ALLOC;                /* storage could not grow */
            for (int j = 0; j < K; j++) if (k < 0 && !d->e[j].present) k = j;
            if (k < 0) return UBASE_ERR_ALLOC;                                    /* full (a bound of the abstraction, reported as an error) */
            d->e[k].present = true; d->e[k].name = nm; d->e[k].type = type;
        }
        d->e[k].size = size; for (int j = 0; j < VMAX; j++) VALP(d, k)[j] = 0xEE;
        *p = VALP(d, k);
        return UBASE_ERR_NONE;
    }
    default: g_stub_bad = true; return UBASE_ERR_UNHANDLED;
    }
}
static struct udict *stub_a_alloc(struct udict_mgr *mgr, size_t size)
{
    g_allocs++;
    if (g_live > 0 || (VS_CHOICE(alloc_fails) & 1)) return NULL;
    g_live++; g_d3.udict.mgr = mgr; for (int k = 0; k < K; k++) g_d3.e[k].present = false;
    return &g_d3.udict;
}
static void stub_a_free(struct udict *udict) { if (udict == &g_d3.udict) g_live--; else g_stub_bad = true; }
static int stub_a_mgr_control(struct udict_mgr *mgr, int command, va_list args) { return UBASE_ERR_UNHANDLED; }

/* ---- spec -------------------------------------------------------------------------------------------------- */
struct asnap { struct aslot e[K]; uint8_t v0[VMAX], v1[VMAX], v2[VMAX]; };
#define SVALP(s, k) ((k) == 0 ? (s)->v0 : (k) == 1 ? (s)->v1 : (s)->v2)
static void snap(struct asnap *s, const struct adict *d) { for (int k = 0; k < K; k++) s->e[k] = d->e[k]; for (int j = 0; j < VMAX; j++) { s->v0[j] = VALP(d, 0)[j]; s->v1[j] = VALP(d, 1)[j]; s->v2[j] = VALP(d, 2)[j]; } }
static bool val_eq(uint8_t sa, const uint8_t *va, uint8_t sb, const uint8_t *vb)
{
    if (sa != sb) return false;
    for (int j = 0; j < VMAX; j++) if (j < sa && va[j] != vb[j]) return false;
    return true;
}
/* key (nm, type) answers the same in snapshot s and dictionary d */
static bool spec_key_same(const struct asnap *s, const struct adict *d, int nm, int type)
{
    int ks = -1, kd = -1;
    for (int k = 0; k < K; k++) { if (s->e[k].present && s->e[k].name == nm && s->e[k].type == type && ks < 0) ks = k;
                                  if (d->e[k].present && d->e[k].name == nm && d->e[k].type == type && kd < 0) kd = k; }
    if ((ks < 0) != (kd < 0)) return false;
    return ks < 0 || val_eq(s->e[ks].size, SVALP(s, ks), d->e[kd].size, VALP(d, kd));
}
static bool spec_has_key(const struct asnap *s, int nm, int type)
{
    for (int k = 0; k < K; k++) if (s->e[k].present && s->e[k].name == nm && s->e[k].type == type) return true;
    return false;
}
static bool spec_equal(const struct asnap *a, const struct asnap *b)
{
    for (int k = 0; k < K; k++) {
        if (a->e[k].present) { bool f = false; for (int j = 0; j < K; j++) if (b->e[j].present && b->e[j].name == a->e[k].name && b->e[j].type == a->e[k].type && val_eq(a->e[k].size, SVALP(a, k), b->e[j].size, SVALP(b, j))) f = true; if (!f) return false; }
        if (b->e[k].present) { bool f = false; for (int j = 0; j < K; j++) if (a->e[j].present && a->e[j].name == b->e[k].name && a->e[j].type == b->e[k].type && val_eq(b->e[k].size, SVALP(b, k), a->e[j].size, SVALP(a, j))) f = true; if (!f) return false; }
    }
    return true;
}
static bool spec_unique(const struct adict *d)
{
    for (int i = 0; i < K; i++) for (int j = 0; j < K; j++)
        if (i < j && d->e[i].present && d->e[j].present && d->e[i].name == d->e[j].name && d->e[i].type == d->e[j].type) return false;
    return true;
}
#define BUILD_ONE(d, pre) \
    VIN_ARR(uint8_t, pre##p, K); VIN_ARR(uint8_t, pre##n, K); VIN_ARR(uint8_t, pre##t, K); VIN_ARR(uint8_t, pre##s, K); VIN_ARR(uint32_t, pre##v, K); \
    (d).udict.mgr = &g_amgr; \
    for (int k_ = 0; k_ < K; k_++) { \
        VASSUME(pre##n[k_] < NNAMES && pre##t[k_] >= 1 && pre##t[k_] <= 3 && pre##s[k_] <= VMAX); \
        (d).e[k_].present = (pre##p[k_] & 1) != 0; (d).e[k_].name = pre##n[k_]; (d).e[k_].type = pre##t[k_]; (d).e[k_].size = pre##s[k_]; \
        for (int j_ = 0; j_ < VMAX; j_++) VALP(&(d), k_)[j_] = (uint8_t)(pre##v[k_] >> (8 * j_)); } \
    VASSUME(spec_unique(&(d)))
#define BUILD() \
    g_amgr.refcount = NULL; g_amgr.udict_alloc = stub_a_alloc; g_amgr.udict_control = stub_a_control; g_amgr.udict_free = stub_a_free; \
    g_amgr.udict_mgr_control = stub_a_mgr_control; g_stub_bad = false; g_allocs = 0; g_live = 0; \
    BUILD_ONE(g_d1, a_); BUILD_ONE(g_d2, b_); \
    struct asnap s1, s2; snap(&s1, &g_d1); snap(&s2, &g_d2); \
    VIN(uint8_t, gn); VIN(uint8_t, gt); VASSUME(gn < NNAMES && gt >= 1 && gt <= 3)

void h_cmp(void)
{
    BUILD();
    int r = udict_cmp(&g_d1.udict, &g_d2.udict);
    VPOST((r == 0) == spec_equal(&s1, &s2));
    VPOST(spec_key_same(&s1, &g_d1, gn, gt) && spec_key_same(&s2, &g_d2, gn, gt) && !g_stub_bad);     /* comparing changes neither */
    VCANARY();
}
void h_import(void)
{
    BUILD();
    int r = udict_import(&g_d1.udict, &g_d2.udict);
    VPOST(spec_key_same(&s2, &g_d2, gn, gt) && !g_stub_bad);                       /* the source is untouched */
    VPOST(spec_unique(&g_d1));
    if (spec_has_key(&s2, gn, gt))
        VPOST(r != UBASE_ERR_NONE || spec_key_same(&s2, &g_d1, gn, gt));          /* every attribute of the source: now in the destination, same value */
    else
        VPOST(spec_key_same(&s1, &g_d1, gn, gt));                                 /* the others keep their value, imported or not */
    VCANARY();
}
void h_copy(void)
{
    BUILD();
    struct udict *c = udict_copy(&g_amgr, &g_d2.udict);
    VPOST(spec_key_same(&s2, &g_d2, gn, gt) && !g_stub_bad);
    if (c != NULL) {
        struct asnap s3; snap(&s3, &g_d3);
        VPOST(c == &g_d3.udict && g_live == 1 && spec_equal(&s2, &s3) && spec_key_same(&s2, &g_d3, gn, gt));
    } else
        VPOST(g_live == 0);
    VCANARY();
}
#ifdef VENTRY
VMAIN(VENTRY)
#endif
