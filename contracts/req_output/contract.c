/* Contract unit: UPIPE_HELPER_OUTPUT request bookkeeping as instantiated by lib/upipe-modules/upipe_idem.c
 * (included whole) + include/upipe/upipe.h upipe_register_request / upipe_unregister_request   (property C12)
 *
 * INV_req: every request on REQUEST_LIST has  registered == (OUTPUT != NULL)  and, when an output is connected, the
 * last thing that output heard about the request is a REGISTER (ghost per request and per output, kept by the
 * downstream stub); requests are on the list exactly once, in registration order.
 * From an arbitrary state with INV_req (NREQ requests on the list, output A connected or none):
 *   register_output_request(r) : r is appended; with an output it is registered there once (flag set), otherwise it is
 *                                offered to the probes (provide_request event) and stays unregistered;
 *   unregister_output_request(r): r leaves the list; it is unregistered from the output iff it was registered;
 *                                 the other requests are untouched;
 *   set_output(B | NULL)        : every request is withdrawn from the old output exactly once and re-issued to the new one
 *                                 exactly once (REGISTER is the last thing the new output heard, flag set), also when the
 *                                 new output answers a request synchronously and the answer's callback re-requires the
 *                                 next request on the list (re-entrancy, as flow_format -> ubuf_mgr helpers do);
 *   clean_output                : every request is unregistered once, cleaned and freed once; the list is empty.
 */
#include "vpipeflow_pre.h"
#include <stdlib.h>
/* proxies are released through (urequest_free_func)free: libc free is counted instead of executed, so that the function
 * pointer has a body the verifier can dispatch to (a proxy freed twice or never shows in g_proxy_freed) */
static int g_proxy_freed; static void *g_the_proxy;
static void stub_free_fn(void *p) { if (p == g_the_proxy) g_proxy_freed++; }
#define free stub_free_fn
#include "lib/upipe-modules/upipe_idem.c"
#include "vspec.h"
#include "vstub_pipe.h"
int stub_udict_cmp(struct udict *a, struct udict *b) { return 0; }

#ifndef NREQ
#define NREQ 2
#endif
#ifndef WITH_A
#define WITH_A 1
#endif
#ifndef TO_NULL
#define TO_NULL 0
#endif
#ifndef SWAP
#define SWAP 0
#endif
#ifndef REENTER
#define REENTER 0
#endif
#define MAXR 3
static struct upipe g_outA, g_outB; static struct urefcount g_rcA, g_rcB;
static struct urequest g_r0, g_r1, g_r2, g_rnew;
#define RQ(k) ((k) == 0 ? &g_r0 : (k) == 1 ? &g_r1 : (k) == 2 ? &g_r2 : &g_rnew)
#define IDX(r) ((r) == &g_r0 ? 0 : (r) == &g_r1 ? 1 : (r) == &g_r2 ? 2 : (r) == &g_rnew ? 3 : -1)
/* ghost: what each output heard, per request */
static int g_reg[2][MAXR + 1], g_unreg[2][MAXR + 1], g_last[2][MAXR + 1];     /* g_last: 1 = register, 2 = unregister */
static int g_unknown_req, g_provide_events, g_freed_req[MAXR + 1], g_bad_order;
static int g_acc[2], g_inputs[2], g_inputs_unaccepted[2];        /* per output: accepted a definition; buffers received; buffers received before accepting */
static struct upipe *g_pipe; static bool g_reenter; static int g_reentered;
static bool g_rej[2];             /* the output refuses flow definitions */
static int g_swap, g_need_output_events;
static int g_last_reg_ret;          /* what the output answered to the last REGISTER */       /* the probe answers need_output by connecting output B */
static int stub_req_control(struct upipe *upipe, int command, va_list args)
{
    int o = upipe == &g_outA ? 0 : 1;
    if (command == UPIPE_REGISTER_REQUEST || command == UPIPE_UNREGISTER_REQUEST) {
        struct urequest *r = va_arg(args, struct urequest *);
        int k = IDX(r);
        if (k < 0) { g_unknown_req++; return UBASE_ERR_INVALID; }
        if (command == UPIPE_REGISTER_REQUEST) {
            if (g_last[o][k] == 1) g_bad_order++;                 /* registered twice in a row */
            g_reg[o][k]++; g_last[o][k] = 1;
            /* re-entrancy: the output answers request 0 at once and the answer's callback re-requires request 1
             * (unregister + register through the same helper), as UPIPE_HELPER_FLOW_FORMAT -> _UBUF_MGR pipes do */
            if (REENTER == 2 && g_reentered == 0) {
                /* re-entrancy of another kind: answering the request makes the pipe send data at once (a pipe that was holding
                 * buffers until the answer): the buffer must not reach an output that has not accepted the definition */
                g_reentered = 1;
                struct uref *u_ = vs_make_uref(false, 0, 5);
                if (u_ != NULL) upipe_input(g_pipe, u_, NULL);
            }
            if (REENTER == 3 && k == MAXR && g_reentered == 0) {
                /* the output answers the new request at once and the requester's callback re-issues the same request
                 * (unregister + register), as the upipe_helper_* require_* functions do from their provide callbacks */
                g_reentered = 1;
                upipe_idem_unregister_output_request(g_pipe, &g_rnew);
                upipe_idem_register_output_request(g_pipe, &g_rnew);
            }
            if (REENTER == 1 && g_reenter && k == 0 && NREQ >= 2 && g_reentered == 0) {
                g_reentered = 1;
                upipe_idem_unregister_output_request(g_pipe, &g_r1);
                upipe_idem_register_output_request(g_pipe, &g_r1);
            }
            g_last_reg_ret = VS_CHOICE(req_handled) & 1 ? UBASE_ERR_NONE : UBASE_ERR_UNHANDLED;
            return g_last_reg_ret;
        }
        if (g_last[o][k] != 1) g_bad_order++;                      /* unregistered something it does not hold */
        g_unreg[o][k]++; g_last[o][k] = 2;
        return UBASE_ERR_NONE;
    }
    if (command == UPIPE_SET_FLOW_DEF) { if (g_rej[o]) { g_acc[o] = 0; return UBASE_ERR_INVALID; } g_acc[o] = 1; return UBASE_ERR_NONE; }
    return UBASE_ERR_UNHANDLED;
}
static void stub_req_input(struct upipe *upipe, struct uref *uref, struct upump **upump_p)
{
    int o = upipe == &g_outA ? 0 : 1;
    g_inputs[o]++; if (!g_acc[o]) g_inputs_unaccepted[o]++;
    uref_free(uref);
}
static struct upipe_mgr g_req_mgr;
static void stub_rc_cb(struct urefcount *rc) { }
static void stub_req_free(struct urequest *r) { int k = IDX(r); if (k >= 0) g_freed_req[k]++; }
static int stub_req_provide(struct urequest *r, va_list args) { return UBASE_ERR_NONE; }
static int stub_probe_req(struct uprobe *uprobe, struct upipe *upipe, int event, va_list args)
{
    if (event == UPROBE_PROVIDE_REQUEST) g_provide_events++;
    if (event == UPROBE_NEED_OUTPUT) {
        g_need_output_events++;
        if (g_swap && g_need_output_events == 1) { upipe_idem_set_output(g_pipe, &g_outB); return UBASE_ERR_NONE; }
    }
    return event == UPROBE_LOG ? UBASE_ERR_NONE : UBASE_ERR_UNHANDLED;
}
static struct upipe *vp_call_alloc(struct upipe_mgr *mgr, struct uprobe *uprobe, uint32_t signature, ...)
{
    va_list args; va_start(args, signature);
    struct upipe *upipe = upipe_idem_alloc(mgr, uprobe, signature, args);
    va_end(args);
    return upipe;
}
/* ---- spec -------------------------------------------------------------------------------------------------- */
/* the list holds exactly RQ(0..n-1) followed (if with_new) by g_rnew, minus the index `skip` */
static bool spec_list_is(struct upipe *upipe, int n, bool with_new, int skip)
{
    struct uchain *head = &upipe_idem_from_upipe(upipe)->request_list, *c = head;
    for (int k = 0; k < MAXR + 1; k++) {
        bool present = (k < n && k != skip) || (k == MAXR && with_new);
        if (!present) continue;
        struct uchain *nx = c->next;
        if (nx != &RQ(k)->uchain || nx->prev != c) return false;
        c = nx;
    }
    return c->next == head && head->prev == c;
}
/* ---- entries ------------------------------------------------------------------------------------------------- */
#define BUILD() \
    vs_reset_all(); VPIPE_INIT_MGR(upipe_idem_mgr, UPIPE_IDEM_SIGNATURE, upipe_idem_alloc, upipe_idem_output, upipe_idem_control); \
    gs_probe.uprobe_throw = stub_probe_req; \
    VPIPE_INIT_MGR(g_req_mgr, 0x72657130, NULL, stub_req_input, stub_req_control); \
    g_outA.mgr = &g_req_mgr; g_outA.refcount = &g_rcA; g_rcA.refcount = 1; g_rcA.cb = stub_rc_cb; uchain_init(&g_outA.uchain); g_outA.uprobe = NULL; \
    g_outB.mgr = &g_req_mgr; g_outB.refcount = &g_rcB; g_rcB.refcount = 1; g_rcB.cb = stub_rc_cb; uchain_init(&g_outB.uchain); g_outB.uprobe = NULL; \
    struct upipe *upipe = vp_call_alloc(&upipe_idem_mgr, &gs_probe, UPIPE_VOID_SIGNATURE); VASSUME(upipe != NULL); g_pipe = upipe; \
    struct upipe_idem *s = upipe_idem_from_upipe(upipe); \
    for (int o_ = 0; o_ < 2; o_++) for (int k_ = 0; k_ <= MAXR; k_++) { g_reg[o_][k_] = g_unreg[o_][k_] = g_last[o_][k_] = 0; } \
    for (int k_ = 0; k_ <= MAXR; k_++) { g_freed_req[k_] = 0; urequest_init(RQ(k_), UREQUEST_UCLOCK, NULL, stub_req_provide, stub_req_free); } \
    g_unknown_req = g_provide_events = g_bad_order = g_reentered = 0; g_reenter = false; \
    g_rej[0] = g_rej[1] = false; g_swap = 0; g_need_output_events = 0; \
    g_acc[0] = g_acc[1] = 0; g_inputs[0] = g_inputs[1] = 0; g_inputs_unaccepted[0] = g_inputs_unaccepted[1] = 0; \
    if (WITH_A) { s->output = &g_outA; g_rcA.refcount++; } \
    /* the old output has accepted the pipe's definition (state VALID) */ \
    s->flow_def = vs_make_uref(true, 7, 0); VASSUME(s->flow_def != NULL); \
    if (WITH_A) { s->output_state = UPIPE_HELPER_OUTPUT_VALID; g_acc[0] = 1; } \
    for (int k_ = 0; k_ < NREQ; k_++) { ulist_add(&s->request_list, &RQ(k_)->uchain); RQ(k_)->registered = WITH_A != 0; if (WITH_A) g_last[0][k_] = 1; }

void h_req_register(void)
{
    BUILD();
    int ret = upipe_idem_register_output_request(upipe, &g_rnew);
    VPOST(spec_list_is(upipe, NREQ, true, -1));
    VPOST(WITH_A ? ((REENTER == 3 || g_reg[0][MAXR] == 1) && g_rnew.registered && g_bad_order == 0)
                 : (!g_rnew.registered && g_provide_events == 1 && g_reg[0][MAXR] == 0));
    /* "forwarded down the chain until a pipe or a probe provides it": an output that does not handle the request leaves it
     * to the pipe's probes (one provide_request event); one that handles it is the end of the road */
    if (REENTER == 3 && WITH_A) {
        /* re-issued from inside the answer: still on the list exactly once, and the output's last word about it is one REGISTER
         * that has not been withdrawn (no stale second registration) */
        VPOST(g_reentered == 1 && g_reg[0][MAXR] == g_unreg[0][MAXR] + 1 && g_last[0][MAXR] == 1 && g_bad_order == 0 && g_rnew.registered);
    } else
    VPOST(!WITH_A || g_provide_events == (g_last_reg_ret == UBASE_ERR_UNHANDLED ? 1 : 0));
    VIN(uint8_t, gk); VASSUME(gk < NREQ || NREQ == 0);
    VPOST(NREQ == 0 || (g_reg[0][gk] == 0 && g_unreg[0][gk] == 0 && RQ(gk)->registered == (WITH_A != 0)));   /* the others untouched */
    VCANARY();
}
void h_req_unregister(void)
{
    BUILD();
    VIN(uint8_t, which); VASSUME(which < NREQ);
    int ret = upipe_idem_unregister_output_request(upipe, RQ(which));
    VPOST(spec_list_is(upipe, NREQ, false, which));
    VPOST(g_unreg[0][which] == (WITH_A ? 1 : 0) && !RQ(which)->registered && g_bad_order == 0);
    VIN(uint8_t, gk); VASSUME(gk < NREQ);
    VPOST(gk == which || (g_reg[0][gk] == 0 && g_unreg[0][gk] == 0 && RQ(gk)->registered == (WITH_A != 0)));
    VCANARY();
}
void h_req_set_output(void)
{
    BUILD();
    /* compile-time case split (-DTO_NULL, -DREENTER): symbolic pipe pointers defeat the symbolic executor */
    struct upipe *out = TO_NULL ? NULL : &g_outB;
    g_reenter = REENTER != 0;
    int ret = upipe_idem_set_output(upipe, out);
    VPOST(ret == UBASE_ERR_NONE && s->output == out && g_bad_order == 0 && g_unknown_req == 0);
    VPOST(g_inputs_unaccepted[0] == 0 && g_inputs_unaccepted[1] == 0);     /* no buffer reaches an output before it accepted the flow definition */
    VPOST(s->output_state == UPIPE_HELPER_OUTPUT_NONE || (out != NULL && g_acc[1]));
    VIN(uint8_t, gk); VASSUME(gk < NREQ || NREQ == 0);
    if (NREQ > 0) {
        /* withdrawn from the old output exactly once */
        VPOST(g_unreg[0][gk] == (WITH_A ? 1 : 0) && g_reg[0][gk] == 0);
        /* re-issued to the new output: REGISTER is the last thing it heard, and the flag says so */
        VPOST(out == NULL ? (!RQ(gk)->registered && g_reg[1][gk] == 0)
                          : (RQ(gk)->registered && g_last[1][gk] == 1 && g_reg[1][gk] == g_unreg[1][gk] + 1));
        /* still on the list (each once) */
        int on = 0; struct uchain *c = s->request_list.next;
        for (int k = 0; k < MAXR + 1; k++) { if (c == &s->request_list) break; if (c == &RQ(gk)->uchain) on++; c = c->next; }
        VPOST(on == 1 && c == &s->request_list);
    }
    VCANARY();
}
/* ---- _output when the connected output refuses the definition and the application (probe, need_output) connects another:
 * the refused output loses the pipe's reference and the helper's temporary one (C01), the new output is offered the
 * definition and gets the buffer only if it accepted (C04); without a replacement the buffer is dropped, nothing leaks */
void h_output_swap(void)
{
    BUILD();
    VIN(uint8_t, b_rejects);
    s->output_state = UPIPE_HELPER_OUTPUT_NONE; g_acc[0] = 0; g_rej[0] = true; g_rej[1] = (b_rejects & 1) != 0;
    g_swap = SWAP;
    struct uref *u = vs_make_uref(false, 0, 9); VASSUME(u != NULL);
    int live0 = gs_uref_live;
    upipe_idem_output(upipe, u, NULL);
    VPOST(gs_uref_live == live0 - 1);                               /* the buffer was delivered (and consumed) or freed: never kept, never freed twice */
    VPOST(g_inputs_unaccepted[0] == 0 && g_inputs_unaccepted[1] == 0 && g_inputs[0] == 0);
    VPOST(g_need_output_events >= 1);
    if (SWAP) {
        VPOST(s->output == &g_outB && (int)g_rcA.refcount == 1 && (int)g_rcB.refcount == 2);     /* every reference on the refused output was returned */
        VPOST(g_inputs[1] == (g_rej[1] ? 0 : 1));
        VPOST(s->output_state == (g_rej[1] ? UPIPE_HELPER_OUTPUT_INVALID : UPIPE_HELPER_OUTPUT_VALID));
    } else {
        VPOST(s->output == &g_outA && (int)g_rcA.refcount == 2 && (int)g_rcB.refcount == 1 && g_inputs[1] == 0);
        VPOST(s->output_state == UPIPE_HELPER_OUTPUT_INVALID);
    }
    VPOST(spec_list_is(upipe, NREQ, false, -1));
    VCANARY();
}
/* ---- proxies: an upstream request U registered on this pipe is forwarded as a proxy; answers come back to U ---------- */
static struct urequest g_up; static int g_up_provided; static uint64_t g_up_arg; static int g_up_freed;
static int stub_up_provide(struct urequest *r, va_list args) { if (r == &g_up) { g_up_provided++; g_up_arg = va_arg(args, uint64_t); } return UBASE_ERR_NONE; }
static void stub_up_free(struct urequest *r) { g_up_freed++; }
static struct urequest *spec_proxy_on_list(struct upipe *upipe, int *count)
{
    struct uchain *h = &upipe_idem_from_upipe(upipe)->request_list, *c = h->next; struct urequest *found = NULL; *count = 0;
    for (int k = 0; k < MAXR + 2; k++) {
        if (c == h) break;
        struct urequest *r = container_of(c, struct urequest, uchain);
        if (r->opaque == &g_up && IDX(r) < 0) { found = r; (*count)++; }
        c = c->next;
    }
    return found;
}
void h_proxy(void)
{
    BUILD();
    VIN(uint8_t, with_uref); VIN(uint64_t, answer);
    struct uref *ur = (with_uref & 1) ? vs_make_uref(true, 3, 0) : NULL;
    VASSUME(!(with_uref & 1) || ur != NULL);
    urequest_init(&g_up, UREQUEST_SINK_LATENCY, ur, stub_up_provide, stub_up_free);
    g_up_provided = 0; g_up_freed = 0; g_up_arg = 0; g_proxy_freed = 0;
    int live0 = gs_uref_live, n;
    /* register: through the helper's control entry, as an upstream pipe's upipe_register_request does */
    int r1 = upipe_idem_alloc_output_proxy(upipe, &g_up);
    struct urequest *p = spec_proxy_on_list(upipe, &n);
    g_the_proxy = p;
    if (r1 == UBASE_ERR_ALLOC && p == NULL) {            /* could not be created: nothing left behind */
        VPOST(n == 0 && gs_uref_live == live0 && g_unknown_req == 0);
    } else {
        VPOST(n == 1 && p != NULL && p->type == UREQUEST_SINK_LATENCY && p->registered == (WITH_A != 0));
        VPOST(((with_uref & 1) != 0) == (p->uref != NULL) && (p->uref == NULL || (p->uref != ur && vs_def_id(p->uref) == 3)));      /* its own copy of the argument */
        VPOST(g_unknown_req == (WITH_A ? 1 : 0));                        /* the output heard one REGISTER, for the proxy (not one of the listed requests) */
        /* the answer given to the proxy reaches the original requester, once, with the same value */
        int ra = urequest_provide_sink_latency(p, answer);
        VPOST(ra == UBASE_ERR_NONE && g_up_provided == 1 && g_up_arg == answer);
        /* unregister: the proxy is withdrawn and freed, the upstream request itself is left to its owner */
        int r2 = upipe_idem_free_output_proxy(upipe, &g_up);
        spec_proxy_on_list(upipe, &n);
        VPOST(g_proxy_freed == 1);                                         /* the proxy structure is released exactly once */
        VPOST(r2 == UBASE_ERR_NONE && n == 0 && g_up_freed == 0 && gs_uref_live == live0 && g_unknown_req == (WITH_A ? 2 : 0));
        VPOST(spec_list_is(upipe, NREQ, false, -1));
        /* a second unregister finds nothing */
        VPOST(upipe_idem_free_output_proxy(upipe, &g_up) == UBASE_ERR_INVALID);
    }
    VCANARY();
}
void h_req_clean(void)
{
    BUILD();
    upipe_idem_clean_output(upipe);
    VPOST(ulist_empty(&s->request_list) && s->output == NULL && g_bad_order == 0);
    VIN(uint8_t, gk); VASSUME(gk < NREQ || NREQ == 0);
    VPOST(NREQ == 0 || (g_unreg[0][gk] == (WITH_A ? 1 : 0) && g_freed_req[gk] == 1));
    VPOST((int)g_rcA.refcount == 1);                          /* the output reference is given back */
    VCANARY();
}
#ifdef VENTRY
VMAIN(VENTRY)
#endif
