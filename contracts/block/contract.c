/* Contract unit: include/upipe/ubuf_block.h chain operations  (properties C03, C02 frame part)
 *
 * A block is a chain of segments (struct ubuf_block linked by next_ubuf); each segment is a window
 * [offset, offset+size) on a memory area `buffer`. Abstract view of a block: the sequence of LOCATIONS
 *      view(head)[i] = (buffer_k, offset_k + (i - start_k))        for the segment k containing position i,
 * of length sum of the segment sizes. Block operations re-window, they never copy: "content preserved" is
 * "location preserved", so no byte arrays are needed, and the assigns clauses (which list segment structures
 * only, never an area) prove that these operations do not write to (shared) areas.
 * WF(head): chain closed within the walk bound, total_size == sum of sizes, cached_ubuf is a segment of the chain
 * and cached_offset is the position of its first octet, cached_end_ubuf is NULL or a segment of the chain.
 * Every contract:  requires WF  ensures WF,  accepted ==> view equation of the byte-string operation (ghost index g_i),
 * refused ==> view unchanged.  Offsets / sizes are full-range ints.
 * Shape per run: -DNSEG (segments), -DCI (index of the cached segment); segment windows, areas, the cached end
 * hint and all arguments symbolic. The manager behind the function pointers is a stub (UBUF_DUP of one segment for
 * slice, UBUF_SINGLE, MAP/UNMAP, UBUF_SPLICE_BLOCK, free); the real manager is the block_mem unit.
 */
#include <upipe/ubase.h>
#include <upipe/ubuf.h>
#include <upipe/ubuf_block.h>
#include "vspec.h"
#include "vstub_choice.h"

#ifndef NSEG
#define NSEG 2
#endif
#ifndef CI
#define CI 0
#endif
#ifndef NINS
#define NINS 1          /* segments of the second block (append / insert argument) */
#endif
#ifndef MAXW
#define MAXW 8           /* walk bound of the spec: NSEG (<=3) + NINS (<=2) + spare segments created by slice (<=2) */
#endif
#ifndef MAXSZ
#define MAXSZ (1u << 20) /* bound on the segment sizes / offsets the harness builds (sums stay far below 2^31) */
#endif
#ifndef AREASZ
#define AREASZ 1          /* octets of each area object (the block_bytes unit uses real content: 8) */
#endif
#define SB(u) container_of(u, struct ubuf_block, ubuf)

/* ---- objects (each segment a separate object) -------------------------------------- */
static struct ubuf_mgr g_bmgr;
static struct ubuf_block g_nd0, g_nd1, g_nd2, g_nd3;       /* the block under operation */
static struct ubuf_block g_in0, g_in1;                     /* the second block */
static struct ubuf_block g_sp0, g_sp1;                     /* segments the manager stub hands out */
static uint8_t g_areaA[AREASZ], g_areaB[AREASZ], g_areaC[AREASZ], g_areaD[AREASZ];
#define NODE(k) ((k) == 0 ? &g_nd0 : (k) == 1 ? &g_nd1 : (k) == 2 ? &g_nd2 : &g_nd3)
#define INODE(k) ((k) == 0 ? &g_in0 : &g_in1)
#define AREA(a) ((a) == 0 ? g_areaA : (a) == 1 ? g_areaB : (a) == 2 ? g_areaC : g_areaD)
/* area of segment k: symbolically chosen (areas may be shared between segments) unless FIXED_AREAS (byte-reading unit: segment k on area k) */
#ifdef FIXED_AREAS
#define SEG_AREA(k, sel) AREA(k)
#else
#define SEG_AREA(k, sel) AREA(sel)
#endif

/* ---- ghost state ------------------------------------------------------------------------ */
struct vsnap;
          /* the two blocks at entry */
static struct ubuf *g_ocached, *g_ocend; static size_t g_ocoff;
static int g_arg_off, g_arg_size;       /* *offset_p / *size_p at entry (get, read, write) */
static int g_spare_used;                /* stub: segments handed out */
static int g_single_ret;                /* stub: answer to UBUF_SINGLE */
static struct ubuf *g_fresh;            /* stub: a block the manager has just allocated (single owner by construction) */
static int g_nfree; static struct ubuf *g_freed[2];   /* stub: chains released */
static struct ubuf *g_spl_seg; static int g_spl_off, g_spl_size, g_spl_calls; static struct ubuf *g_spl_ret; /* stub: splice */
static bool g_stub_bad;
static uint8_t g_oarea[4][AREASZ];             /* content of the areas at entry (frame: structure operations never write to an area) */

/* ---- manager stub (far side of ubuf_mgr's function pointers; the real one is verified in block_mem) ---- */
static int stub_blk_control(struct ubuf *ubuf, int command, va_list args)
{
    struct ubuf_block *blk = SB(ubuf);
    switch (command) {
    case UBUF_DUP: {       /* as ubuf_block_common_dup for a single segment (ubuf_block_slice detaches it first) */
        struct ubuf **new_p = va_arg(args, struct ubuf **);
        if (blk->next_ubuf != NULL) g_stub_bad = true;
        if (g_spare_used >= 2 || (VS_CHOICE(dup_fails) & 1)) return UBASE_ERR_ALLOC;
        struct ubuf_block *n = g_spare_used == 0 ? &g_sp0 : &g_sp1;
        g_spare_used++;
        n->ubuf.mgr = ubuf->mgr;
        n->offset = blk->offset; n->size = blk->size; n->total_size = blk->total_size; n->buffer = blk->buffer;
        n->map = blk->map; n->next_ubuf = NULL;
        n->cached_ubuf = n->cached_end_ubuf = &n->ubuf; n->cached_offset = 0;
        *new_p = &n->ubuf;
        return UBASE_ERR_NONE;
    }
    case UBUF_SINGLE: return (g_fresh != NULL && ubuf == g_fresh) ? UBASE_ERR_NONE : g_single_ret;
    case UBUF_MAP_BLOCK: { uint8_t **p = va_arg(args, uint8_t **); *p = blk->buffer; return UBASE_ERR_NONE; }
    case UBUF_UNMAP_BLOCK: return UBASE_ERR_NONE;
    case UBUF_SPLICE_BLOCK: {
        struct ubuf **new_p = va_arg(args, struct ubuf **);
        g_spl_seg = ubuf; g_spl_off = va_arg(args, int); g_spl_size = va_arg(args, int); g_spl_calls++;
        if (VS_CHOICE(splice_fails) & 1) return UBASE_ERR_ALLOC;
        *new_p = g_spl_ret = &g_sp0.ubuf;
        return UBASE_ERR_NONE;
    }
    default: g_stub_bad = true; return UBASE_ERR_UNHANDLED;
    }
}
static void stub_blk_free(struct ubuf *ubuf)
{
    if (g_nfree < 2) g_freed[g_nfree] = ubuf;
    g_nfree++;
}

/* ---- spec --------------------------------------------------------------------------------- */
#define VSPEC_MGR (&g_bmgr)
static inline bool spec_areas_kept(void);
#include "blockspec.h"
static inline bool spec_areas_kept(void)
{
    for (int k = 0; k < AREASZ; k++)
        if (g_areaA[k] != g_oarea[0][k] || g_areaB[k] != g_oarea[1][k] || g_areaC[k] != g_oarea[2][k] || g_areaD[k] != g_oarea[3][k]) return false;
    return true;
}
static struct vsnap g_o, g_oi;          /* the two blocks at entry */
/* pre-state common to all operations on the first block */
static inline bool pre_block(struct ubuf *ubuf)
{
    return ubuf == &g_nd0.ubuf && g_bmgr.signature == UBUF_ALLOC_BLOCK && spec_wf(ubuf) && spec_snap_is(&g_o, ubuf) &&
           g_o.total <= 4 * MAXSZ && g_ocached == g_nd0.cached_ubuf && g_ocoff == g_nd0.cached_offset &&
           g_ocend == g_nd0.cached_end_ubuf && g_spare_used == 0 && g_nfree == 0 && g_spl_calls == 0 && !g_stub_bad;
}
static inline bool pre_block2(struct ubuf *ubuf, struct ubuf *other)
{
    return pre_block(ubuf) && other == &g_in0.ubuf && spec_wf(other) && spec_snap_is(&g_oi, other) && g_oi.total <= 2 * MAXSZ;
}

/* -- ubuf_block_get ------------------------------------------------------------------------- */
static inline bool post_get(struct ubuf *ubuf, int *offset_p, int *size_p, struct ubuf *ret)
{
    if (!spec_wf(ubuf) || !spec_unchanged(ubuf, &g_o) || g_stub_bad || !spec_areas_kept()) return false;
    int64_t o = g_arg_off < 0 ? (int64_t)g_o.total + g_arg_off : (int64_t)g_arg_off;
    if (ret == NULL)                /* refused only when no segment contains the position; the cache is left alone */
        return (o < 0 || o >= (int64_t)g_o.total) && g_nd0.cached_ubuf == g_ocached && g_nd0.cached_offset == g_ocoff;
    if (o < 0 || o >= (int64_t)g_o.total) return false;
    size_t st = spec_start(ubuf, ret);
    if (st == (size_t)-1 || (int64_t)st > o || *offset_p != (int)(o - (int64_t)st) || (size_t)*offset_p >= SB(ret)->size) return false;
    if (g_nd0.cached_ubuf != ret || g_nd0.cached_offset != st) return false;
    if (size_p != NULL && *size_p != (g_arg_size == -1 ? (int)((int64_t)g_o.total - o) : g_arg_size)) return false;
    return true;
}
/* -- read / write: a non-empty run of the view starting at the requested position ------------------ */
static inline bool post_read(struct ubuf *ubuf, int offset, int *size_p, uint8_t *const *buffer_p, int ret, bool is_write)
{
    if (!spec_wf(ubuf) || !spec_unchanged(ubuf, &g_o) || g_stub_bad || !spec_areas_kept()) return false;
    int64_t o = offset < 0 ? (int64_t)g_o.total + offset : (int64_t)offset;
    if (ret != UBASE_ERR_NONE)
        return (o < 0 || o >= (int64_t)g_o.total) ? ret == UBASE_ERR_INVALID : (is_write && ret == g_single_ret);
    if (o < 0 || o >= (int64_t)g_o.total) return false;
    if (is_write && g_single_ret != UBASE_ERR_NONE) return false;       /* a writable mapping only when the area is single */
    uint8_t *b; size_t off;
    if (!spec_loc(ubuf, (size_t)o, &b, &off) || *buffer_p != b + off) return false;
    if (size_p == NULL) return true;
    int64_t want = g_arg_size == -1 ? (int64_t)g_o.total - o : (int64_t)g_arg_size;
    int64_t run = *size_p;
    if (want >= 1 && run < 1) return false;
    if (run > want && want >= 0) return false;
    /* octet g_i of the run is octet o + g_i of the view, contiguous in memory */
    if (run > 0 && g_i < (size_t)run) {
        uint8_t *b2; size_t off2;
        if (!spec_loc(ubuf, (size_t)o + g_i, &b2, &off2) || b2 != b || off2 != off + g_i) return false;
    }
    return true;
}
/* -- size_linear -------------------------------------------------------------------------------------- */
static inline bool post_size_linear(struct ubuf *ubuf, int offset, size_t *size_p, int ret)
{
    if (!spec_wf(ubuf) || !spec_unchanged(ubuf, &g_o) || !spec_areas_kept()) return false;
    int64_t o = offset < 0 ? (int64_t)g_o.total + offset : (int64_t)offset;
    if (ret != UBASE_ERR_NONE) return o < 0 || o >= (int64_t)g_o.total;
    if (o < 0 || o >= (int64_t)g_o.total || *size_p < 1 || (int64_t)*size_p > (int64_t)g_o.total - o) return false;
    uint8_t *b, *b2; size_t off, off2;
    if (!spec_loc(ubuf, (size_t)o, &b, &off)) return false;
    return g_i >= *size_p || (spec_loc(ubuf, (size_t)o + g_i, &b2, &off2) && b2 == b && off2 == off + g_i);
}
/* -- append: view' = view ++ view(append) ---------------------------------------------------------------- */
static inline bool post_append(struct ubuf *ubuf, struct ubuf *append, int ret)
{
    if (ret != UBASE_ERR_NONE) return false;        /* two block buffers: always accepted */
    if (!spec_wf(ubuf) || g_stub_bad || !spec_areas_kept()) return false;
    if (g_nd0.total_size != g_o.total + g_oi.total) return false;
    if (g_i >= g_nd0.total_size) return true;
    return g_i < g_o.total ? spec_same(ubuf, g_i, &g_o, g_i) : spec_same(ubuf, g_i, &g_oi, g_i - g_o.total);
}
/* -- insert at o: view' = view[0,o) ++ view(insert) ++ view[o,..) ------------------------------------------- */
static inline bool post_insert(struct ubuf *ubuf, int offset, struct ubuf *insert, int ret)
{
    if (!spec_wf(ubuf) || g_stub_bad || !spec_areas_kept()) return false;
    int64_t o = offset < 0 ? (int64_t)g_o.total + offset : (int64_t)offset;
    if (ret != UBASE_ERR_NONE) return spec_unchanged(ubuf, &g_o) && spec_wf(insert) && spec_unchanged(insert, &g_oi);
    if (o < 0 || o > (int64_t)g_o.total) return false;
    if (g_nd0.total_size != g_o.total + g_oi.total) return false;
    if (g_i >= g_nd0.total_size) return true;
    if (g_i < (size_t)o) return spec_same(ubuf, g_i, &g_o, g_i);
    if (g_i < (size_t)o + g_oi.total) return spec_same(ubuf, g_i, &g_oi, g_i - (size_t)o);
    return spec_same(ubuf, g_i, &g_o, g_i - g_oi.total);
}
/* -- delete [o, o+n) ------------------------------------------------------------------------------------------- */
static inline bool post_delete(struct ubuf *ubuf, int offset, int size, int ret)
{
    if (!spec_wf(ubuf) || g_stub_bad || !spec_areas_kept()) return false;
    if (ret != UBASE_ERR_NONE) return spec_unchanged(ubuf, &g_o);
    size_t o, n;
    if (!spec_range(g_o.total, offset, size, &o, &n)) return false;        /* accepted a request outside the block */
    if (g_nd0.total_size != g_o.total - n) return false;
    if (g_i >= g_nd0.total_size) return true;
    return spec_same(ubuf, g_i, &g_o, g_i < o ? g_i : g_i + n);
}
/* -- truncate to o octets (documentation: offset >= 0) ------------------------------------------------------------ */
static inline bool post_truncate(struct ubuf *ubuf, int offset, int ret)
{
    if (!spec_wf(ubuf) || g_stub_bad || !spec_areas_kept()) return false;
    if (ret != UBASE_ERR_NONE) return spec_unchanged(ubuf, &g_o) && g_nfree == 0;
    if ((size_t)offset > g_o.total) return false;
    if (g_nd0.total_size != (size_t)offset) return false;
    /* what is cut off is released exactly once, and it is the old continuation of the new last segment */
    if (g_nfree > 1) return false;
    if (g_i >= g_nd0.total_size) return true;
    return spec_same(ubuf, g_i, &g_o, g_i);
}
/* -- resize(o, n): keep [o, o+n) ---------------------------------------------------------------------------------- */
static inline bool post_resize(struct ubuf *ubuf, int offset, int new_size, int ret)
{
    if (!spec_wf(ubuf) || g_stub_bad || !spec_areas_kept()) return false;
    if (ret != UBASE_ERR_NONE) return spec_unchanged(ubuf, &g_o);
    size_t o, n;
    if (!spec_range(g_o.total, offset, new_size, &o, &n)) return false;
    if (g_nd0.total_size != n) return false;
    if (g_i >= n) return true;
    return spec_same(ubuf, g_i, &g_o, g_i + o);
}
/* -- prepend p octets in front (taken from the area in front of the first segment's window) ---------------------------- */
static inline bool post_prepend(struct ubuf *ubuf, int prepend, int ret)
{
    if (!spec_wf(ubuf) || g_stub_bad || !spec_areas_kept()) return false;
    if (ret != UBASE_ERR_NONE) return spec_unchanged(ubuf, &g_o);
    if ((size_t)prepend > g_o.off[0]) return false;
    if (g_nd0.total_size != g_o.total + (size_t)prepend) return false;
    if (g_i >= g_nd0.total_size) return true;
    uint8_t *b; size_t off;
    if (g_i < (size_t)prepend)
        return spec_loc(ubuf, g_i, &b, &off) && b == g_o.buf[0] && off == g_o.off[0] - (size_t)prepend + g_i;
    return spec_same(ubuf, g_i, &g_o, g_i - (size_t)prepend);
}
/* -- split at o: block keeps [0,o), the returned block is [o, total) ------------------------------------------------------ */
static inline bool post_split(struct ubuf *ubuf, int offset, struct ubuf *ret)
{
    if (!spec_wf(ubuf) || g_stub_bad || !spec_areas_kept()) return false;
    int64_t o = offset < 0 ? (int64_t)g_o.total + offset : (int64_t)offset;
    if (ret == NULL) {
        /* nothing after the split point (o == total: the block is unchanged) or refused */
        return spec_unchanged(ubuf, &g_o);
    }
    if (o < 0 || o > (int64_t)g_o.total) return false;
    if (!spec_wf(ret)) return false;
    if (g_nd0.total_size != (size_t)o || SB(ret)->total_size != g_o.total - (size_t)o) return false;
    if (g_i < (size_t)o) return spec_same(ubuf, g_i, &g_o, g_i);
    if (g_i < g_o.total) return spec_same(ret, g_i - (size_t)o, &g_o, g_i);
    return true;
}
/* -- splice: the manager is asked for (segment, offset in segment, size) of the normalised request ---------------------------- */
static inline bool post_splice(struct ubuf *ubuf, int offset, int size, struct ubuf *ret)
{
    if (!spec_wf(ubuf) || !spec_unchanged(ubuf, &g_o) || g_stub_bad || !spec_areas_kept()) return false;
    int64_t o = offset < 0 ? (int64_t)g_o.total + offset : (int64_t)offset;
    if (g_spl_calls == 0) return ret == NULL;
    if (g_spl_calls != 1 || o < 0 || o >= (int64_t)g_o.total) return false;
    { size_t ro, rn; if (!spec_range(g_o.total, offset, size, &ro, &rn)) return false; }       /* the manager is only asked for ranges inside the block */
    size_t st = spec_start(ubuf, g_spl_seg);
    if (st == (size_t)-1 || (int64_t)st + g_spl_off != o || (size_t)g_spl_off >= SB(g_spl_seg)->size) return false;
    if (g_spl_size != (size == -1 ? (int)((int64_t)g_o.total - o) : size)) return false;
    return ret == NULL || ret == g_spl_ret;
}
/* -- slice (internal): segment cut in two at `offset`, same view ----------------------------------------------------------------- */
static inline bool post_slice(struct ubuf *seg, int offset, int ret)
{
    if (!spec_wf(&g_nd0.ubuf) || !spec_unchanged(&g_nd0.ubuf, &g_o) || g_stub_bad) return false;
    if (ret != UBASE_ERR_NONE) return spec_snap_is(&g_o, &g_nd0.ubuf);
    return SB(seg)->size == (size_t)offset && spec_len(&g_nd0.ubuf) == g_o.n + 1;
}

/* ---- contracts -------------------------------------------------------------------------------------------- */
#define ALL_NODES g_nd0, g_nd1, g_nd2, g_nd3, g_in0, g_in1, g_sp0, g_sp1
#define STUB_GHOST g_spare_used, g_nfree, g_freed, g_spl_seg, g_spl_off, g_spl_size, g_spl_calls, g_spl_ret, g_stub_bad, gs_vsc
#ifndef VNATIVE
/* assumed contract of the manager's UBUF_DUP as ubuf_block_slice uses it (on a segment it has detached): NULL, or a
 * new segment with the same window on the same area. Replaces ubuf_dup in the groups whose function slices (the far
 * side of the manager interface; the real ubuf_block_mem_dup / ubuf_block_common_dup are under contract in block_mem). */
static inline bool post_dup_seg(struct ubuf *ubuf, struct ubuf *ret, int used_old)
{
    if (ret == NULL) return g_spare_used == used_old;
    struct ubuf_block *n = used_old == 0 ? &g_sp0 : &g_sp1, *blk = SB(ubuf);
    return used_old < 2 && g_spare_used == used_old + 1 && ret == &n->ubuf && n->ubuf.mgr == &g_bmgr &&
           n->offset == blk->offset && n->size == blk->size && n->buffer == blk->buffer && n->map == blk->map &&
           n->next_ubuf == NULL && n->cached_ubuf == ret && n->cached_end_ubuf == ret && n->cached_offset == 0;
}
static inline struct ubuf *ubuf_dup(struct ubuf *ubuf)
__CPROVER_requires(ubuf != NULL && SB(ubuf)->next_ubuf == NULL)
__CPROVER_assigns(g_sp0, g_sp1, g_spare_used)
__CPROVER_ensures(post_dup_seg(ubuf, __CPROVER_return_value, __CPROVER_old(g_spare_used)))
;
static inline struct ubuf *ubuf_block_get(struct ubuf *ubuf, int *offset_p, int *size_p)
__CPROVER_requires(pre_block(ubuf) && offset_p != NULL && *offset_p == g_arg_off && (size_p == NULL || *size_p == g_arg_size))
__CPROVER_assigns(*offset_p, g_nd0.cached_ubuf, g_nd0.cached_offset; size_p != NULL: *size_p)
__CPROVER_ensures(post_get(ubuf, offset_p, size_p, __CPROVER_return_value))
;
static inline int ubuf_block_read(struct ubuf *ubuf, int offset, int *size_p, const uint8_t **buffer_p)
__CPROVER_requires(pre_block(ubuf) && buffer_p != NULL && (size_p == NULL || *size_p == g_arg_size))
__CPROVER_assigns(*buffer_p, g_nd0.cached_ubuf, g_nd0.cached_offset, STUB_GHOST; size_p != NULL: *size_p)
__CPROVER_ensures(post_read(ubuf, offset, size_p, (uint8_t *const *)buffer_p, __CPROVER_return_value, false))
;
static inline int ubuf_block_write(struct ubuf *ubuf, int offset, int *size_p, uint8_t **buffer_p)
__CPROVER_requires(pre_block(ubuf) && buffer_p != NULL && (size_p == NULL || *size_p == g_arg_size))
__CPROVER_assigns(*buffer_p, g_nd0.cached_ubuf, g_nd0.cached_offset, STUB_GHOST; size_p != NULL: *size_p)
__CPROVER_ensures(post_read(ubuf, offset, size_p, buffer_p, __CPROVER_return_value, true))
;
static inline int ubuf_block_size_linear(struct ubuf *ubuf, int offset, size_t *size_p)
__CPROVER_requires(pre_block(ubuf) && size_p != NULL)
__CPROVER_assigns(*size_p, g_nd0.cached_ubuf, g_nd0.cached_offset)
__CPROVER_ensures(post_size_linear(ubuf, offset, size_p, __CPROVER_return_value))
;
static inline int ubuf_block_append(struct ubuf *ubuf, struct ubuf *append)
__CPROVER_requires(pre_block2(ubuf, append))
__CPROVER_assigns(ALL_NODES)
__CPROVER_ensures(post_append(ubuf, append, __CPROVER_return_value))
;
static inline int ubuf_block_insert(struct ubuf *ubuf, int offset, struct ubuf *insert)
__CPROVER_requires(pre_block2(ubuf, insert))
__CPROVER_assigns(ALL_NODES, STUB_GHOST)
__CPROVER_ensures(post_insert(ubuf, offset, insert, __CPROVER_return_value))
;
static inline int ubuf_block_delete(struct ubuf *ubuf, int offset, int size)
__CPROVER_requires(pre_block(ubuf))
__CPROVER_assigns(ALL_NODES, STUB_GHOST)
__CPROVER_ensures(post_delete(ubuf, offset, size, __CPROVER_return_value))
;
static inline int ubuf_block_truncate(struct ubuf *ubuf, int offset)
__CPROVER_requires(pre_block(ubuf) && offset >= 0)
__CPROVER_assigns(ALL_NODES, STUB_GHOST)
__CPROVER_ensures(post_truncate(ubuf, offset, __CPROVER_return_value))
;
static inline int ubuf_block_resize(struct ubuf *ubuf, int offset, int new_size)
__CPROVER_requires(pre_block(ubuf))
__CPROVER_assigns(ALL_NODES, STUB_GHOST)
__CPROVER_ensures(post_resize(ubuf, offset, new_size, __CPROVER_return_value))
;
static inline int ubuf_block_prepend(struct ubuf *ubuf, int prepend)
__CPROVER_requires(pre_block(ubuf) && prepend >= 0)
__CPROVER_assigns(g_nd0.offset, g_nd0.size, g_nd0.total_size, g_nd0.cached_offset)
__CPROVER_ensures(post_prepend(ubuf, prepend, __CPROVER_return_value))
;
static inline struct ubuf *ubuf_block_split(struct ubuf *ubuf, int offset)
__CPROVER_requires(pre_block(ubuf))
__CPROVER_assigns(ALL_NODES, STUB_GHOST)
__CPROVER_ensures(post_split(ubuf, offset, __CPROVER_return_value))
;
static inline struct ubuf *ubuf_block_splice(struct ubuf *ubuf, int offset, int size)
__CPROVER_requires(pre_block(ubuf))
__CPROVER_assigns(g_nd0.cached_ubuf, g_nd0.cached_offset, STUB_GHOST)
__CPROVER_ensures(post_splice(ubuf, offset, size, __CPROVER_return_value))
;
#endif

/* ---- entries ------------------------------------------------------------------------------------------------ */
/* builds the block: NSEG segments with symbolic windows on symbolically chosen areas, cache on segment CI,
 * cached end hint = NULL or any segment (symbolic unless -DCE) */
#ifdef CE
#define CE_CHOICE() int ce = CE
#else
#define CE_CHOICE() VIN(int, ce); VASSUME(ce >= -1 && ce < NSEG)
#endif
#define BUILD_BLOCK() \
    g_bmgr.signature = UBUF_ALLOC_BLOCK; g_bmgr.ubuf_control = stub_blk_control; g_bmgr.ubuf_free = stub_blk_free; \
    VIN_ARR(uint32_t, soff, 4); VIN_ARR(uint32_t, ssz, 4); VIN_ARR(uint8_t, sarea, 4); VIN_ARR(uint8_t, smap, 4); \
    VIN_ARR(uint32_t, junk, 4); CE_CHOICE(); \
    VIN_ARR(uint8_t, abytes, 4 * AREASZ); \
    for (int a_ = 0; a_ < AREASZ; a_++) { g_areaA[a_] = g_oarea[0][a_] = abytes[a_]; g_areaB[a_] = g_oarea[1][a_] = abytes[AREASZ + a_]; \
        g_areaC[a_] = g_oarea[2][a_] = abytes[2 * AREASZ + a_]; g_areaD[a_] = g_oarea[3][a_] = abytes[3 * AREASZ + a_]; } \
    VIN(size_t, gi); g_i = gi; \
    { size_t pos_ = 0, cpos_ = 0; \
      for (int k_ = 0; k_ < NSEG; k_++) { \
        struct ubuf_block *b_ = NODE(k_); \
        VASSUME(soff[k_] <= MAXSZ && ssz[k_] <= MAXSZ && sarea[k_] < 4 && (AREASZ == 1 || soff[k_] + ssz[k_] <= AREASZ)); \
        b_->ubuf.mgr = &g_bmgr; b_->offset = soff[k_]; b_->size = ssz[k_]; b_->buffer = SEG_AREA(k_, sarea[k_]); b_->map = (smap[k_] & 1) != 0; \
        b_->next_ubuf = k_ + 1 < NSEG ? &NODE(k_ + 1)->ubuf : NULL; \
        /* fields that only mean something in a head */ \
        b_->total_size = junk[k_]; b_->cached_ubuf = &b_->ubuf; b_->cached_offset = junk[k_]; b_->cached_end_ubuf = NULL; \
        if (k_ == CI) cpos_ = pos_; \
        pos_ += ssz[k_]; \
      } \
      g_nd0.total_size = pos_; g_nd0.cached_ubuf = &NODE(CI)->ubuf; g_nd0.cached_offset = cpos_; \
      g_nd0.cached_end_ubuf = ce < 0 ? NULL : &NODE(ce)->ubuf; \
    } \
    H_spec_snap(&g_o, &g_nd0.ubuf); g_ocached = g_nd0.cached_ubuf; g_ocoff = g_nd0.cached_offset; g_ocend = g_nd0.cached_end_ubuf; \
    g_spare_used = 0; g_nfree = 0; g_spl_calls = 0; g_stub_bad = false; g_fresh = NULL; \
    VIN(int, single_ret); g_single_ret = single_ret == 0 ? UBASE_ERR_NONE : UBASE_ERR_BUSY; \
    struct ubuf *ubuf = &g_nd0.ubuf
/* second block: NINS segments, a well-formed head of its own */
#define BUILD_SECOND() \
    VIN_ARR(uint32_t, ioff, 2); VIN_ARR(uint32_t, isz, 2); VIN_ARR(uint8_t, iarea, 2); VIN(int, ice); \
    VASSUME(ice >= -1 && ice < NINS); \
    { size_t pos_ = 0; \
      for (int k_ = 0; k_ < NINS; k_++) { \
        struct ubuf_block *b_ = INODE(k_); \
        VASSUME(ioff[k_] <= MAXSZ && isz[k_] <= MAXSZ && iarea[k_] < 4 && (AREASZ == 1 || ioff[k_] + isz[k_] <= AREASZ)); \
        b_->ubuf.mgr = &g_bmgr; b_->offset = ioff[k_]; b_->size = isz[k_]; b_->buffer = SEG_AREA(3 - k_, iarea[k_]); b_->map = false; \
        b_->next_ubuf = k_ + 1 < NINS ? &INODE(k_ + 1)->ubuf : NULL; \
        b_->total_size = 0; b_->cached_ubuf = &b_->ubuf; b_->cached_offset = 0; b_->cached_end_ubuf = NULL; \
        pos_ += isz[k_]; \
      } \
      g_in0.total_size = pos_; g_in0.cached_ubuf = &g_in0.ubuf; g_in0.cached_offset = 0; \
      g_in0.cached_end_ubuf = ice < 0 ? NULL : &INODE(ice)->ubuf; \
    } \
    H_spec_snap(&g_oi, &g_in0.ubuf); \
    struct ubuf *other = &g_in0.ubuf

void h_get(void)
{
    BUILD_BLOCK();
    VIN(int, offset); VIN(int, size); VIN(uint8_t, with_size_); bool with_size = (with_size_ & 1) != 0;
    int off = offset, sz = size; int *size_p = with_size ? &sz : NULL;
    g_arg_off = offset; g_arg_size = size;
    VPRE(pre_block(ubuf));
    struct ubuf *ret = ubuf_block_get(ubuf, &off, size_p);
    VPOST(post_get(ubuf, &off, size_p, ret));
    VCANARY();
}
void h_read(void)
{
    BUILD_BLOCK();
    VIN(int, offset); VIN(int, size); VIN(uint8_t, with_size_); bool with_size = (with_size_ & 1) != 0;
    int sz = size; int *size_p = with_size ? &sz : NULL; const uint8_t *buf = NULL;
    g_arg_size = size;
    VPRE(pre_block(ubuf));
    int ret = ubuf_block_read(ubuf, offset, size_p, &buf);
    VPOST(post_read(ubuf, offset, size_p, (uint8_t *const *)&buf, ret, false));
    VCANARY();
}
void h_write(void)
{
    BUILD_BLOCK();
    VIN(int, offset); VIN(int, size); VIN(uint8_t, with_size_); bool with_size = (with_size_ & 1) != 0;
    int sz = size; int *size_p = with_size ? &sz : NULL; uint8_t *buf = NULL;
    g_arg_size = size;
    VPRE(pre_block(ubuf));
    int ret = ubuf_block_write(ubuf, offset, size_p, &buf);
    VPOST(post_read(ubuf, offset, size_p, &buf, ret, true));
    VCANARY();
}
void h_size_linear(void)
{
    BUILD_BLOCK();
    VIN(int, offset); size_t sz = 0;
    VPRE(pre_block(ubuf));
    int ret = ubuf_block_size_linear(ubuf, offset, &sz);
    VPOST(post_size_linear(ubuf, offset, &sz, ret));
    VCANARY();
}
void h_append(void)
{
    BUILD_BLOCK(); BUILD_SECOND();
    VPRE(pre_block2(ubuf, other));
    int ret = ubuf_block_append(ubuf, other);
    VPOST(post_append(ubuf, other, ret));
    VCANARY();
}
void h_insert(void)
{
    BUILD_BLOCK(); BUILD_SECOND();
    VIN(int, offset);
    VPRE(pre_block2(ubuf, other));
    int ret = ubuf_block_insert(ubuf, offset, other);
    VPOST(post_insert(ubuf, offset, other, ret));
    VCANARY();
}
void h_delete(void)
{
    BUILD_BLOCK();
    VIN(int, offset); VIN(int, size);
#ifdef KF_DELETE_RANGE
    /* known finding (KNOWN_FINDINGS.txt): requests outside the block; everything else is still checked */
    VASSUME(H_range(g_o.total, offset, size));
#endif
    VPRE(pre_block(ubuf));
    int ret = ubuf_block_delete(ubuf, offset, size);
    VPOST(post_delete(ubuf, offset, size, ret));
    VCANARY();
}
void h_truncate(void)
{
    BUILD_BLOCK();
    VIN(int, offset);
    VPRE(pre_block(ubuf) && offset >= 0);
    int ret = ubuf_block_truncate(ubuf, offset);
    VPOST(post_truncate(ubuf, offset, ret));
    VCANARY();
}
void h_resize(void)
{
    BUILD_BLOCK();
    VIN(int, offset); VIN(int, new_size);
    VPRE(pre_block(ubuf));
    int ret = ubuf_block_resize(ubuf, offset, new_size);
    VPOST(post_resize(ubuf, offset, new_size, ret));
    VCANARY();
}
void h_prepend(void)
{
    BUILD_BLOCK();
    VIN(int, prepend);
    VPRE(pre_block(ubuf) && prepend >= 0);
    int ret = ubuf_block_prepend(ubuf, prepend);
    VPOST(post_prepend(ubuf, prepend, ret));
    VCANARY();
}
void h_split(void)
{
    BUILD_BLOCK();
    VIN(int, offset);
    VPRE(pre_block(ubuf));
    struct ubuf *ret = ubuf_block_split(ubuf, offset);
    VPOST(post_split(ubuf, offset, ret));
    VCANARY();
}
void h_splice(void)
{
    BUILD_BLOCK();
    VIN(int, offset); VIN(int, size);
    VPRE(pre_block(ubuf));
    struct ubuf *ret = ubuf_block_splice(ubuf, offset, size);
    VPOST(post_splice(ubuf, offset, size, ret));
    VCANARY();
}

#if defined(VENTRY) && !defined(BLOCK_BYTES)
VMAIN(VENTRY)
#endif
