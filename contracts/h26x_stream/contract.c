/* Contract unit: lib/upipe-framers/upipe_h26x_common.c (included whole): upipe_h26xf_stream_get / _ue / _se
 * (property C17: "exp-Golomb and emulation-prevention decoding return the values a reference encoder wrote";
 *  never read outside the buffer)
 *
 * stream_get (contract, all inputs): over an opaque octet buffer, with z = zero-history of the previous octets
 * (bit 0: previous octet was 0, bit 1: the one before), the next octet o is returned — unless o == 3 after two zero
 * octets, in which case it is an emulation-prevention octet: it is dropped and the octet after it is returned (or the
 * end of the buffer reported); the history is updated with every octet consumed, the dropped 03 included (non-zero).
 * ue / se (lemma, all code values 0 .. 2^32-2, all bit phases, arbitrary surrounding bits): a reference writer puts
 * junk bits, the exp-Golomb code of v, then padding into a raw byte sequence, the standard emulation-prevention
 * encoder turns it into the wire octets, and the real readers return v (resp. its signed mapping) without overflow.
 * No read outside [buffer, end) is a built-in obligation (pointer checks) on every path, end-of-data included.
 */
#include "lib/upipe-framers/upipe_h26x_common.c"
#include "vspec.h"

#define WMAX 16
static uint8_t g_wire[WMAX];

/* ---- stream_get ------------------------------------------------------------------------------------------- */
void h_stream_get(void)
{
    VIN_ARR(uint8_t, wire, WMAX); VIN(uint8_t, wlen); VIN(uint8_t, pos); VIN(uint8_t, zeros);
    VASSUME(wlen <= WMAX && pos <= wlen);
    for (int k = 0; k < WMAX; k++) g_wire[k] = wire[k];
    struct upipe_h26xf_stream f; f.zeros = zeros;
    ubuf_block_stream_init_from_opaque(&f.s, g_wire, wlen);
    f.s.buffer = g_wire + pos;
    uint8_t out = 0xAA;
    int ret = upipe_h26xf_stream_get(&f.s, &out);
    /* specification */
    bool ok; uint8_t exp_out = 0xAA, exp_z = zeros; uint8_t exp_adv = 0;
    if (pos >= wlen) { ok = false; }
    else {
        uint8_t o = g_wire[pos];
        if (o == 3 && (zeros & 3) == 3) {                       /* emulation prevention octet: dropped */
            if (pos + 1 >= wlen) { ok = false; exp_adv = 1; exp_z = (uint8_t)(zeros << 1); }
            else { uint8_t o2 = g_wire[pos + 1]; ok = true; exp_out = o2; exp_adv = 2;
                   exp_z = (uint8_t)((uint8_t)(zeros << 2) | (o2 == 0 ? 1 : 0)); }
        } else { ok = true; exp_out = o; exp_adv = 1; exp_z = (uint8_t)((uint8_t)(zeros << 1) | (o == 0 ? 1 : 0)); }
    }
    VPOST((ret == UBASE_ERR_NONE) == ok);
    VPOST(!ok || out == exp_out);
    VPOST(f.s.buffer == g_wire + pos + exp_adv && f.s.end == g_wire + wlen);
    VPOST(!ok || ((f.zeros ^ exp_z) & 3) == 0);               /* the two history bits the escape test looks at */
    VCANARY();
}

/* ---- ue / se over a reference encoder ------------------------------------------------------------------------ */
#define RMAX 10
static void encode(uint32_t v, uint8_t phase, uint64_t junk, uint64_t pad, uint8_t *wire, uint8_t *wlen_p)
{
    uint8_t rbsp[RMAX];
    uint64_t code = (uint64_t)v + 1;                      /* 1 .. 2^32-1 */
    int n = 0;                                            /* leading zeros = floor(log2(code)) */
    for (int k = 1; k < 32; k++) if (code >> k) n = k;
    int start = phase, stop = phase + 2 * n + 1;          /* code occupies bits [start, stop) */
    for (int i = 0; i < RMAX; i++) rbsp[i] = 0;
    for (int i = 0; i < RMAX * 8; i++) {
        unsigned bit;
        if (i < start) bit = (unsigned)(junk >> (i & 63)) & 1;
        else if (i < start + n) bit = 0;
        else if (i < stop) bit = (unsigned)(code >> (stop - 1 - i)) & 1;
        else bit = (unsigned)(pad >> (i & 63)) & 1;
        rbsp[i >> 3] |= (uint8_t)(bit << (7 - (i & 7)));
    }
    /* emulation prevention (H.264 7.4.1 / H.265 7.4.2): 00 00 followed by 00..03 gets a 03 inserted */
    uint8_t out = 0; int zeros = 0;
    for (int i = 0; i < RMAX; i++) {
        if (zeros >= 2 && rbsp[i] <= 3) { wire[out++] = 3; zeros = 0; }
        wire[out++] = rbsp[i];
        zeros = rbsp[i] == 0 ? zeros + 1 : 0;
    }
    *wlen_p = out;
}
#define READ_SETUP() \
    VIN(uint32_t, v); VIN(uint8_t, phase); VIN(uint64_t, junk); VIN(uint64_t, pad); \
    VASSUME(v != UINT32_MAX && phase <= 7); \
    uint8_t wlen = 0; encode(v, phase, junk, pad, g_wire, &wlen); \
    struct upipe_h26xf_stream f; upipe_h26xf_stream_init(&f); \
    ubuf_block_stream_init_from_opaque(&f.s, g_wire, wlen); \
    struct ubuf_block_stream *s = &f.s; \
    if (phase) { upipe_h26xf_stream_fill_bits(s, phase); ubuf_block_stream_skip_bits(s, phase); }
void h_ue(void)
{
    READ_SETUP();
    uint32_t got = upipe_h26xf_stream_ue(s);
    VPOST(got == v && !s->overflow);
    VCANARY();
}
void h_se(void)
{
    READ_SETUP();
    int32_t got = upipe_h26xf_stream_se(s);
    int64_t expect = (v & 1) ? ((int64_t)v + 1) / 2 : -((int64_t)v / 2);     /* k-th code: +ceil(k/2) for odd k, -k/2 for even k */
    VPOST((int64_t)got == expect && !s->overflow);
    VCANARY();
}
#ifdef VENTRY
VMAIN(VENTRY)
#endif
