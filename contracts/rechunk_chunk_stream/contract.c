/* Contract unit: lib/upipe-modules/upipe_chunk_stream.c (included whole), input / flush / release  (property C14)
 *
 * Modular: the pipe is verified against the CONTRACT of UPIPE_HELPER_UREF_STREAM, written as an abstract stream
 * (ghost g_len = octets pending; append adds the buffer's size; extract(n) returns a buffer of n octets and removes
 * them from the front, or fails; the stream is empty exactly when it has handed everything out) — the macro is
 * re-defined below before the pipe's file is included, the functions keep their names and signatures.
 * Contracts of the pipe, from an arbitrary state with INV_cs: size == (mtu / align) * align > 0, align >= 1:
 *   input  : octets in == octets out + octets still pending; every unit delivered is exactly `size` octets; fewer
 *            than `size` octets stay pending; units are cut from the front of the stream in order (ghost stream position);
 *   flush  : every unit is non-empty (progress => termination), at most `size` octets and a multiple of `align`;
 *            fewer than `align` octets are dropped; nothing stays pending; the loop terminates within the bound;
 *   release: = flush, then dead as the last event (flow template).
 * Buffers are abstract: only their sizes matter to this pipe (sizes carried by a struct ubuf_block's total_size, which is
 * what uref_block_size reads).  Bounded: pending + incoming octets <= MAXLEN (loop unwinding), stated in unit.json.
 */
#include "vpipeflow_pre.h"
#include <upipe/uref.h>
#include <upipe/ubuf_block.h>
#include <upipe/uref_block.h>
#include <upipe/upipe_helper_uref_stream.h>
#include <stdlib.h>
#ifndef MAXLEN
#define MAXLEN 6
#endif
/* ---- abstract stream (assumed contract of UPIPE_HELPER_UREF_STREAM) ------------------------------------------ */
static size_t g_len;                 /* octets pending in the stream */
static size_t g_pos;                 /* stream position of the first pending octet */
static struct uref g_stream_uref; static struct ubuf_block g_stream_blk;   /* token standing for the reassembled stream */
static struct ubuf_mgr g_szmgr;      /* manager of sized abstract buffers */
static int g_extracts, g_live_units, g_zero_extracts;
static bool g_stream_bad;
unsigned long long nondet_vs_choice(void);
static struct uref *vs_sized_uref(size_t size);
static size_t vs_uref_size(struct uref *u) { return container_of(u->ubuf, struct ubuf_block, ubuf)->total_size; }
static void vs_sized_free(struct uref *u);
static void stub_sized_ubuf_free(struct ubuf *ubuf);
#undef UPIPE_HELPER_UREF_STREAM
#define UPIPE_HELPER_UREF_STREAM(STRUCTURE, NEXT_UREF, NEXT_UREF_SIZE, UREFS, APPEND_CB) \
static void STRUCTURE##_init_uref_stream(struct upipe *upipe) \
{ \
    struct STRUCTURE *s = STRUCTURE##_from_upipe(upipe); \
    s->NEXT_UREF = NULL; ulist_init(&s->UREFS); g_len = 0; \
} \
static void STRUCTURE##_append_uref_stream(struct upipe *upipe, struct uref *uref) \
{ \
    struct STRUCTURE *s = STRUCTURE##_from_upipe(upipe); \
    g_len += vs_uref_size(uref); g_stream_blk.total_size = g_len; \
    vs_sized_free(uref); \
    s->NEXT_UREF = &g_stream_uref; \
} \
static struct uref *STRUCTURE##_extract_uref_stream(struct upipe *upipe, size_t extracted) \
{ \
    struct STRUCTURE *s = STRUCTURE##_from_upipe(upipe); \
    if (s->NEXT_UREF == NULL || extracted > g_len) { g_stream_bad = true; return NULL; } \
    if (extracted == 0 && g_zero_extracts < 1000) g_zero_extracts++;      /* an extraction that makes no progress */ \
    struct uref *u = vs_sized_uref(extracted); \
    if (u == NULL) return NULL; \
    u->priv = g_pos;                      /* where in the stream this unit was cut */ \
    g_len -= extracted; g_pos += extracted; g_stream_blk.total_size = g_len; g_extracts++; \
    if (g_len == 0) s->NEXT_UREF = NULL; \
    return u; \
} \
static void STRUCTURE##_clean_uref_stream(struct upipe *upipe) \
{ \
    struct STRUCTURE *s = STRUCTURE##_from_upipe(upipe); \
    s->NEXT_UREF = NULL; g_dropped += g_len; g_len = 0; g_stream_blk.total_size = 0; \
}
static size_t g_dropped;
#include "lib/upipe-modules/upipe_chunk_stream.c"
#define VP_STRUCT upipe_chunk_stream
#define VP_MGR upipe_chunk_stream_mgr
#define VP_HAS_OUTPUT 1
#define VP_ONE_TO_ONE 0
#define VP_INIT_MGR() VPIPE_INIT_MGR(upipe_chunk_stream_mgr, UPIPE_CHUNK_STREAM_SIGNATURE, upipe_chunk_stream_alloc, upipe_chunk_stream_input, upipe_chunk_stream_control)
static struct upipe *vp_call_alloc(struct upipe_mgr *mgr, struct uprobe *uprobe, uint32_t signature, ...)
{
    va_list args; va_start(args, signature);
    struct upipe *upipe = upipe_chunk_stream_alloc(mgr, uprobe, signature, args);
    va_end(args);
    return upipe;
}
#define VP_ALLOC(mgr, probe) vp_call_alloc(mgr, probe, UPIPE_VOID_SIGNATURE)
/* state: any mtu/align with INV_cs, any pending length <= MAXLEN; the sized output stub replaces the generic one */
static size_t g_out_total, g_out_units, g_out_zero, g_out_oversize, g_out_unaligned, g_out_wrong_size, g_out_disorder, g_out_next_pos;
static unsigned int g_unit_size, g_unit_align; static bool g_expect_full;
static void stub_sized_out_input(struct upipe *upipe, struct uref *uref, struct upump **upump_p);
#define VP_EXTRA_STATE(upipe) \
    VIN(unsigned int, cs_mtu); VIN(unsigned int, cs_align); VIN(uint8_t, cs_len); \
    VASSUME(cs_align >= 1 && cs_mtu > cs_align && cs_mtu <= 64 && cs_len <= MAXLEN); \
    upipe_chunk_stream_from_upipe(upipe)->mtu = cs_mtu; upipe_chunk_stream_from_upipe(upipe)->align = cs_align; \
    upipe_chunk_stream_from_upipe(upipe)->size = (cs_mtu / cs_align) * cs_align; \
    g_unit_size = (cs_mtu / cs_align) * cs_align; g_unit_align = cs_align; \
    g_szmgr.signature = UBUF_ALLOC_BLOCK; g_szmgr.ubuf_free = stub_sized_ubuf_free; g_stream_blk.ubuf.mgr = &g_szmgr; g_stream_uref.ubuf = &g_stream_blk.ubuf; \
    g_stream_uref.mgr = &gs_uref_mgr; g_stream_uref.udict = NULL; \
    g_len = cs_len; g_pos = 0; g_stream_blk.total_size = g_len; g_extracts = 0; g_zero_extracts = 0; g_stream_bad = false; g_dropped = 0; \
    upipe_chunk_stream_from_upipe(upipe)->next_uref = cs_len > 0 ? &g_stream_uref : NULL; \
    gs_out_mgr.upipe_input = stub_sized_out_input; \
    g_out_total = g_out_units = g_out_zero = g_out_oversize = g_out_unaligned = g_out_wrong_size = g_out_disorder = 0; g_out_next_pos = 0
#include "vpipeflow.h"

static struct uref *vs_sized_uref_nofail(size_t size);
static struct uref *vs_sized_uref(size_t size)
{
    if (VS_CHOICE(extract_fails) & 1) return NULL;
    return vs_sized_uref_nofail(size);
}
static struct uref *vs_sized_uref_nofail(size_t size)
{
    struct uref *u = vs_make_uref(false, 0, 0);
    struct ubuf_block *b = malloc(sizeof(*b));
    VASSUME(u != NULL && b != NULL);
    b->ubuf.mgr = &g_szmgr; b->total_size = size; b->size = size; b->next_ubuf = NULL;
    u->ubuf = &b->ubuf; g_live_units++;
    return u;
}
/* the abstract buffers' manager: free only */
static void stub_sized_ubuf_free(struct ubuf *ubuf) { free(container_of(ubuf, struct ubuf_block, ubuf)); g_live_units--; }
static void vs_sized_free(struct uref *u) { uref_free(u); }
/* downstream stub that looks at unit sizes and stream positions */
static void stub_sized_out_input(struct upipe *upipe, struct uref *uref, struct upump **upump_p)
{
    size_t sz = vs_uref_size(uref);
    if (gs_ev_dead > 0) gs_out_after_dead++;
    gs_out_inputs++; gs_out_last_input = uref;
    if (gs_out_acc_ptr == NULL) gs_out_input_unaccepted++;
    g_out_total += sz; g_out_units++;
    if (sz == 0) g_out_zero++;
    if (sz > g_unit_size) g_out_oversize++;
    if (sz % g_unit_align) g_out_unaligned++;
    if (g_expect_full && sz != g_unit_size) g_out_wrong_size++;
    if (uref->priv != g_out_next_pos) g_out_disorder++;       /* consecutive, non-overlapping ranges of the stream */
    g_out_next_pos = uref->priv + sz;
    vs_sized_free(uref);
}
/* a delivering output: connected, definition accepted */
#define DELIVERING() (VP_WITH_OUTPUT && g_had_def && g_state_old == UPIPE_HELPER_OUTPUT_VALID)

void h_cs_input(void)
{
    VP_BUILD();
    VIN(uint8_t, in_len); VASSUME(in_len <= MAXLEN && (size_t)in_len + g_len <= MAXLEN);
    size_t len_old = g_len;
    struct uref *uref = vs_sized_uref_nofail(in_len);
    g_expect_full = true;
    upipe_input(upipe, uref, NULL);
    /* conservation (units that could not be delivered for lack of a valid output are freed by the output helper: counted by size) */
    VPOST(!g_stream_bad && spec_inv_out(upipe));
    VPOST(g_out_zero == 0 && g_out_oversize == 0 && g_out_wrong_size == 0 && g_out_disorder == 0);
    VPOST(g_extracts * (size_t)g_unit_size + g_len == len_old + in_len || gs_ev_fatal > 0);     /* every accepted octet is cut exactly once */
    VPOST(g_len < g_unit_size || gs_ev_fatal > 0);                                                   /* whole units do not stay pending */
    VPOST(!DELIVERING() || g_out_units == (size_t)g_extracts);
    VCANARY();
}
void h_cs_flush(void)
{
    VP_BUILD();
    size_t len_old = g_len;
    g_expect_full = false;
    upipe_chunk_stream_flush(upipe);
    VPOST(!g_stream_bad && spec_inv_out(upipe));
    VPOST(g_zero_extracts == 0);                                                                     /* every iteration makes progress: the loop terminates */
    VPOST(g_out_zero == 0 && g_out_oversize == 0 && g_out_unaligned == 0 && g_out_disorder == 0);  /* non-empty, <= size, aligned, in order */
    VPOST(gs_ev_fatal > 0 || (g_len == 0 && upipe_chunk_stream_from_upipe(upipe)->next_uref == NULL));   /* nothing stays pending (unless an allocation failed: fatal) */
    VPOST(gs_ev_fatal > 0 || (g_pos + g_dropped == len_old && g_dropped < g_unit_align));           /* only an unaligned tail is dropped */
    VCANARY();
}
