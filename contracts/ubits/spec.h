/* spec.h of unit ubits: included twice by contract.c (S(x)=x for the contract side,
 * S(x)=H_x for the entry side; DFCC instruments the two call trees differently). */
/* ---- spec functions ------------------------------------------------------ */
static inline size_t S(spec_woct)(const struct ubits *s) { return (size_t)(s->buffer - g_base); }
static inline size_t S(spec_wlen)(const struct ubits *s) { return 8 * S(spec_woct)(s) + (32 - s->available); }
/* octet k of the writer's abstract string, zero padded */
static inline uint64_t S(spec_woctet)(const struct ubits *s, size_t k)
{
    size_t noct = S(spec_woct)(s);
    if (k < noct)
        return g_base[k];
    uint32_t c = s->available < 32 ? s->bits << s->available : 0;
    size_t j = k - noct;
    return j < 4 ? (c >> (24 - 8 * j)) & 0xff : 0;
}
/* field [pos, pos+w) of the writer's abstract string, MSB first; 1 <= w <= 32 */
static inline uint32_t S(spec_wfield)(const struct ubits *s, size_t pos, uint8_t w)
{
    size_t k = pos / 8;
    uint64_t win = S(spec_woctet)(s, k) << 32 | S(spec_woctet)(s, k + 1) << 24 |
                   S(spec_woctet)(s, k + 2) << 16 | S(spec_woctet)(s, k + 3) << 8 |
                   S(spec_woctet)(s, k + 4);
    return (uint32_t)((win >> (40 - pos % 8 - w)) & ((1ull << w) - 1));
}
static inline uint64_t S(spec_moctet)(size_t k) { return k < g_n ? g_base[k] : 0; }
/* field [pos, pos+w) of the octets in memory, zero padded; 1 <= w <= 32 */
static inline uint32_t S(spec_mfield)(size_t pos, uint8_t w)
{
    size_t k = pos / 8;
    uint64_t win = S(spec_moctet)(k) << 32 | S(spec_moctet)(k + 1) << 24 |
                   S(spec_moctet)(k + 2) << 16 | S(spec_moctet)(k + 3) << 8 |
                   S(spec_moctet)(k + 4);
    return (uint32_t)((win >> (40 - pos % 8 - w)) & ((1ull << w) - 1));
}
static inline bool S(spec_wf_writer)(const struct ubits *s)
{
    return s->buffer_end == g_base + g_n &&
           VSAME(s->buffer, g_base) &&
           s->buffer >= g_base && s->buffer <= s->buffer_end &&
           s->available >= 1 && s->available <= 32;
}
static inline size_t S(spec_rcursor)(const struct ubits *s) { return 8 * S(spec_woct)(s) - s->available; }
static inline bool S(spec_wf_reader)(const struct ubits *s)
{
    if (!(s->buffer_end == g_base + g_n &&
          VSAME(s->buffer, g_base) &&
          s->buffer >= g_base && s->buffer <= s->buffer_end && s->available <= 8))
        return false;
    if (s->available) {
        if (s->buffer == g_base)
            return false;
        uint32_t m = (1u << s->available) - 1;
        if ((s->bits & m) != (s->buffer[-1] & m))
            return false;
    }
    return true;
}

/* ---- ubits_put ----------------------------------------------------------- */
/* ghost binding: (g_pos, g_w) is an arbitrary field of the entry string and
 * g_old_field its value */
static inline bool S(spec_ghost_field_bound)(const struct ubits *s)
{
    return g_w >= 1 && g_w <= 32 && g_pos <= S(spec_wlen)(s) && g_pos + g_w <= S(spec_wlen)(s) &&
           g_old_field == S(spec_wfield)(s, g_pos, g_w);
}
static inline bool S(pre_ubits_put)(struct ubits *s, uint8_t nb, uint32_t value)
{
    return S(spec_wf_writer)(s) && nb >= 1 && nb <= 32 && (nb == 32 || value < (1u << nb)) &&
           S(spec_ghost_field_bound)(s);
}
static inline bool S(spec_put_room)(uint8_t nb) /* decided on the entry state */
{
    return nb < g_old.available || g_old.buffer + 4 <= g_old.buffer_end;
}
/* room: the string grows by exactly nb bits and stays well formed */
static inline bool S(post_ubits_put_len)(struct ubits *s, uint8_t nb, uint32_t value)
{
    if (!S(spec_put_room)(nb)) return true;
    return S(spec_wf_writer)(s) && s->overflow == g_old.overflow &&
           S(spec_wlen)(s) == S(spec_wlen)(&g_old) + nb;
}
/* room: every field of the old string is still there (prefix preserved) */
static inline bool S(post_ubits_put_prefix)(struct ubits *s, uint8_t nb, uint32_t value)
{
    if (!S(spec_put_room)(nb)) return true;
    return S(spec_wfield)(s, g_pos, g_w) == g_old_field;
}
/* room: the new field is the value, appended at the old end */
static inline bool S(post_ubits_put_field)(struct ubits *s, uint8_t nb, uint32_t value)
{
    if (!S(spec_put_room)(nb)) return true;
    return S(spec_wfield)(s, S(spec_wlen)(&g_old), nb) == value;
}
/* no room: overflow is flagged and the writer is otherwise untouched */
static inline bool S(post_ubits_put_overflow)(struct ubits *s, uint8_t nb, uint32_t value)
{
    if (S(spec_put_room)(nb)) return true;
    return s->overflow && s->buffer == g_old.buffer && s->buffer_end == g_old.buffer_end &&
           s->bits == g_old.bits && s->available == g_old.available;
}
#define ARGS_ubits_put s, nb, value
#define POSTS_ubits_put(P) P(post_ubits_put_len) P(post_ubits_put_prefix) \
                           P(post_ubits_put_field) P(post_ubits_put_overflow)

/* ---- ubits_clean --------------------------------------------------------- */
static inline bool S(pre_ubits_clean)(struct ubits *s, uint8_t **buffer_end_p)
{
    return S(spec_wf_writer)(s) && S(spec_ghost_field_bound)(s);
}
static inline size_t S(spec_clean_octets)(void) { return (S(spec_wlen)(&g_old) + 7) / 8; }
/* result: NONE iff no overflow was recorded and ceil(len/8) octets fit */
static inline bool S(post_ubits_clean_ret)(struct ubits *s, uint8_t **buffer_end_p, int ret)
{
    bool fits = !g_old.overflow && S(spec_clean_octets)() <= g_n;
    return ret == (fits ? UBASE_ERR_NONE : UBASE_ERR_NOSPC);
}
/* success: the end pointer is base + ceil(len/8) */
static inline bool S(post_ubits_clean_size)(struct ubits *s, uint8_t **buffer_end_p, int ret)
{
    if (ret != UBASE_ERR_NONE) return true;
    return *buffer_end_p == g_base + S(spec_clean_octets)();
}
/* success: every field of the abstract string is now in memory */
static inline bool S(post_ubits_clean_content)(struct ubits *s, uint8_t **buffer_end_p, int ret)
{
    if (ret != UBASE_ERR_NONE) return true;
    return S(spec_mfield)(g_pos, g_w) == g_old_field;
}
/* overflow recorded earlier: nothing is touched */
static inline bool S(post_ubits_clean_overflow)(struct ubits *s, uint8_t **buffer_end_p, int ret)
{
    if (!g_old.overflow) return true;
    return s->buffer == g_old.buffer && s->bits == g_old.bits &&
           s->available == g_old.available && *buffer_end_p == g_endp_old;
}
#define POSTS_ubits_clean(P) P(post_ubits_clean_ret) P(post_ubits_clean_size) \
                             P(post_ubits_clean_content) P(post_ubits_clean_overflow)

/* ---- ubits_get ----------------------------------------------------------- */
static inline bool S(pre_ubits_get)(struct ubits *s, uint8_t nb)
{
    return S(spec_wf_reader)(s) && nb >= 1 && nb <= 32;
}
static inline bool S(spec_get_avail)(uint8_t nb) { return S(spec_rcursor)(&g_old) + nb <= 8 * g_n; }
/* data available: returns the nb bits at the cursor, advances by nb */
static inline bool S(post_ubits_get_value)(struct ubits *s, uint8_t nb, uint32_t ret)
{
    if (!S(spec_get_avail)(nb)) return true;
    return ret == S(spec_mfield)(S(spec_rcursor)(&g_old), nb) && s->overflow == g_old.overflow;
}
static inline bool S(post_ubits_get_cursor)(struct ubits *s, uint8_t nb, uint32_t ret)
{
    if (!S(spec_get_avail)(nb)) return true;
    return S(spec_wf_reader)(s) && S(spec_rcursor)(s) == S(spec_rcursor)(&g_old) + nb;
}
/* running out of data is reported through the overflow indication */
static inline bool S(post_ubits_get_overflow)(struct ubits *s, uint8_t nb, uint32_t ret)
{
    if (S(spec_get_avail)(nb)) return true;
    return s->overflow && ret == 0 && s->buffer >= g_base && s->buffer <= s->buffer_end;
}
#define POSTS_ubits_get(P) P(post_ubits_get_value) P(post_ubits_get_cursor) P(post_ubits_get_overflow)

/* ---- ubits_init ---------------------------------------------------------- */
static inline bool S(post_ubits_init)(struct ubits *s, uint8_t *buffer, size_t buffer_size,
                                   enum ubits_direction dir)
{
    if (dir == UBITS_READ)
        return S(spec_wf_reader)(s) && S(spec_rcursor)(s) == 0 && !s->overflow;
    return S(spec_wf_writer)(s) && S(spec_wlen)(s) == 0 && !s->overflow;
}

