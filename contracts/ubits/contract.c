/* Contract unit: include/upipe/ubits.h  (property C18)
 *
 * Functions under contract: ubits_init, ubits_put, ubits_clean, ubits_get.
 * Abstract view of a writer: the bit string B(s) = octets [base, s->buffer)
 * followed by the low (32 - available) bits of the cache, MSB first.
 * Abstract view of a reader: the bit string of octets [base, base+n), cursor
 * 8*(s->buffer - base) - available.
 * Fields are compared through spec_wfield / spec_mfield (a ≤32-bit window at
 * an arbitrary ghost position), so "for all positions" is a ghost index.
 */
#include <upipe/ubase.h>
#include <upipe/ubits.h>
#include "vspec.h"

/* ---- ghost state (set by the entries before the call) ------------------- */
static uint8_t *g_base;        /* start of the octet buffer */
static size_t g_n;             /* its size */
static struct ubits g_old;     /* structure at entry */
static size_t g_pos;           /* ghost field position (bits) */
static uint8_t g_w;            /* ghost field width 1..32 */
static uint32_t g_old_field;   /* field (g_pos,g_w) of the entry state */
static uint8_t *g_endp_old;    /* *buffer_end_p at entry (clean) */

#define S(x) x
#include "spec.h"
#undef S
#ifndef VNATIVE
/* second copy for calls made by the entries (see spec.h) */
#define S(x) H_##x
#include "spec.h"
#undef S
#define H(x) H_##x
#else
#define H(x) x
#endif

/* ---- contracts (verification build): re-declarations of the real functions */
#ifndef VNATIVE
static inline void ubits_put(struct ubits *s, uint8_t nb, uint32_t value)
__CPROVER_requires(pre_ubits_put(s, nb, value))
__CPROVER_assigns(s->bits, s->available, s->overflow, s->buffer;
                  s->buffer + 4 <= s->buffer_end: __CPROVER_object_upto(s->buffer, 4))
#define P(p) __CPROVER_ensures(p(s, nb, value))
POSTS_ubits_put(P)
#undef P
;
static inline int ubits_clean(struct ubits *s, uint8_t **buffer_end_p)
__CPROVER_requires(pre_ubits_clean(s, buffer_end_p))
__CPROVER_assigns(s->bits, s->available, s->buffer, *buffer_end_p;
                  __CPROVER_object_from(s->buffer))
#define P(p) __CPROVER_ensures(p(s, buffer_end_p, __CPROVER_return_value))
POSTS_ubits_clean(P)
#undef P
;
static inline uint32_t ubits_get(struct ubits *s, uint8_t nb)
__CPROVER_requires(pre_ubits_get(s, nb))
__CPROVER_assigns(s->bits, s->available, s->overflow, s->buffer)
#define P(p) __CPROVER_ensures(p(s, nb, __CPROVER_return_value))
POSTS_ubits_get(P)
#undef P
;
static inline void ubits_init(struct ubits *s, uint8_t *buffer, size_t buffer_size,
                              enum ubits_direction dir)
__CPROVER_requires(buffer == g_base && buffer_size == g_n)
__CPROVER_assigns(*s)
__CPROVER_ensures(post_ubits_init(s, buffer, buffer_size, dir))
;
#endif

/* ---- entries ------------------------------------------------------------- */
#define VMAXN 4096   /* octets; bound on the buffer object only (stated in unit.json) */
#ifdef VNATIVE
#define VN_FILL(p, n) memset(p, 0xA5, n)
#else
#define VN_FILL(p, n)
#endif

/* builds: an octet buffer of symbolic size n, a structure pointing at symbolic
 * offset off into it, every field symbolic */
#define BUILD_STATE() \
    VIN(size_t, n); VASSUME(n <= VMAXN); \
    VIN(size_t, off); VASSUME(off <= n); \
    uint8_t *base = malloc(n ? n : 1); VASSUME(base != NULL); \
    VN_FILL(base, n); \
    g_base = base; g_n = n; \
    VIN(uint32_t, bits); VIN(uint32_t, available); VIN(bool, overflow); \
    struct ubits st; struct ubits *s = &st; \
    st.buffer = base + off; st.buffer_end = base + n; st.bits = bits; \
    st.available = available; st.overflow = overflow
/* the octets around the structure's position, as named inputs (so that a
 * counterexample carries them); the rest of the buffer is arbitrary */
#define BUILD_WINDOW() \
    VIN_ARR(uint8_t, window, 12); \
    for (unsigned k = 0; k < 12; k++) \
        if (off + k >= 6 && off + k - 6 < n) base[off + k - 6] = window[k]
#define GHOST_FIELD() \
    VIN(size_t, pos); VIN(uint8_t, w); VIN(uint32_t, old_field); \
    g_old = st; g_pos = pos; g_w = w; g_old_field = old_field; \
    VGHOST(g_old_field, (w >= 1 && w <= 32 && pos + w <= spec_wlen(s)) ? spec_wfield(s, pos, w) : 0)

void h_ubits_put(void)
{
    BUILD_STATE(); BUILD_WINDOW();
    VIN(uint8_t, nb); VIN(uint32_t, value);
    GHOST_FIELD();
    VPRE(pre_ubits_put(s, nb, value));
    ubits_put(s, nb, value);
#define P(p) VPOST(p(s, nb, value));
    POSTS_ubits_put(P)
#undef P
    VCANARY();
}

void h_ubits_clean(void)
{
    BUILD_STATE(); BUILD_WINDOW();
    GHOST_FIELD();
    uint8_t *endp = NULL; uint8_t **buffer_end_p = &endp;
    g_endp_old = endp;
    VPRE(pre_ubits_clean(s, buffer_end_p));
    int ret = ubits_clean(s, buffer_end_p);
#define P(p) VPOST(p(s, buffer_end_p, ret));
    POSTS_ubits_clean(P)
#undef P
    VCANARY();
}

void h_ubits_get(void)
{
    BUILD_STATE(); BUILD_WINDOW();
    VIN(uint8_t, nb);
    g_old = st;
    VPRE(pre_ubits_get(s, nb));
    uint32_t ret = ubits_get(s, nb);
#define P(p) VPOST(p(s, nb, ret));
    POSTS_ubits_get(P)
#undef P
    VCANARY();
}

void h_ubits_init(void)
{
    VIN(size_t, n); VASSUME(n <= VMAXN);
    uint8_t *base = malloc(n ? n : 1); VASSUME(base != NULL);
    g_base = base; g_n = n;
    VIN(int, dirv); VASSUME(dirv == UBITS_READ || dirv == UBITS_WRITE);
    enum ubits_direction dir = dirv;
    struct ubits st; struct ubits *s = &st;
    uint8_t *buffer = base; size_t buffer_size = n;
    ubits_init(s, buffer, buffer_size, dir);
    VPOST(post_ubits_init(s, buffer, buffer_size, dir));
    VCANARY();
}

#ifndef VNATIVE
/* Lemma (composition of the three contracts, the functions being replaced by
 * them): a field appended at position P by put is what get returns at cursor P
 * once the writer has been cleaned, and the octets produced are ceil(bits/8). */
void h_lemma_roundtrip(void)
{
    BUILD_STATE();
    VIN(uint8_t, nb); VIN(uint32_t, value);
    size_t P0 = H(spec_wlen)(s);
    /* put: the ghost field is any field of the current string */
    VIN(size_t, pos); VIN(uint8_t, w);
    VASSUME(H(spec_wf_writer)(s));
    VASSUME(w >= 1 && w <= 32 && pos <= P0 && pos + w <= P0);
    g_old = st; g_pos = pos; g_w = w; g_old_field = H(spec_wfield)(s, pos, w);
    VASSUME(nb >= 1 && nb <= 32 && (nb == 32 || value < (1u << nb)));
    ubits_put(s, nb, value);
    VASSUME(H(spec_put_room)(nb));      /* the put did not overflow */
    /* clean: the ghost field is the field just written */
    VASSERT(H(spec_wfield)(s, P0, nb) == value, "lemma: field in the abstract string after put");
    g_old = st; g_pos = P0; g_w = nb; g_old_field = H(spec_wfield)(s, P0, nb);
    uint8_t *endp = NULL;
    g_endp_old = endp;
    int ret = ubits_clean(s, &endp);
    VASSUME(ret == UBASE_ERR_NONE);
    VASSERT(H(spec_mfield)(P0, nb) == value, "lemma: field in memory after clean");
    VASSERT((size_t)(endp - base) == (P0 + nb + 7) / 8, "lemma: octets produced = ceil(bits/8)");
    /* any well-formed reader over the produced octets whose cursor is P0 */
    VIN(size_t, roff); VIN(uint32_t, rbits); VIN(uint32_t, ravail);
    struct ubits rd; size_t rn = (size_t)(endp - base);
    VASSUME(roff <= rn);
    g_n = rn;
    rd.buffer = base + roff; rd.buffer_end = base + rn; rd.bits = rbits; rd.available = ravail; rd.overflow = false;
    VASSUME(H(spec_wf_reader)(&rd) && H(spec_rcursor)(&rd) == P0);
    g_old = rd;
    uint32_t got = ubits_get(&rd, nb);
    VASSERT(got == value && !rd.overflow, "lemma: get at cursor P returns the field put at P");
    VCANARY();
}
#endif

#ifdef VENTRY
VMAIN(VENTRY)
#endif
