/* Contract unit: include/upipe/urefcount.h, include/upipe/ubuf_mem_common.h, include/upipe/uatomic.h   (property C09; C01)
 *
 * What a sequential contract can carry of C09 (DESIGN §6 C09): each use/release performs EXACTLY ONE atomic
 * read-modify-write on the counter (ghost g_ops, incremented by the contracts that replace the uatomic_*
 * calls) and the election of the destroyer derives from the value that RMW returned; the callback is
 * cleared before it runs.  A syntactic scan (unit.json "scan_atomic") checks that the bodies touch the
 * counter through uatomic_* only.  The step from there to all interleavings is the single-RMW reduction,
 * trusted and listed.  uatomic_* themselves are enforced against CBMC's model of the gcc __atomic builtins.
 */
#include <upipe/ubase.h>
#include <upipe/uatomic.h>
#include <upipe/urefcount.h>
#include <upipe/ubuf_mem_common.h>
#include "vspec.h"

static struct urefcount g_rc;
static struct ubuf_mem_shared g_sh;
static unsigned g_ops;                      /* atomic accesses to a counter (ghost, see above) */
static uint32_t g_count_old; static urefcount_cb g_cb_old;
static int g_cb_calls; static bool g_cb_saw_cleared; static uint32_t g_cb_saw_count;

static void stub_dead_cb(struct urefcount *rc)
{
    g_cb_calls++; g_cb_saw_cleared = (rc->cb == NULL); g_cb_saw_count = rc->refcount;
}
static void stub_other_cb(struct urefcount *rc) { g_cb_calls += 100; }

/* ---- uatomic ------------------------------------------------------------------ */
#ifndef VNATIVE
#ifdef VATOMIC_ENFORCE      /* checked against the builtins' model */
#define OPS_ASSIGN
#define OPS_INC
#else                       /* used in place of the calls: each call is one shared access */
#define OPS_ASSIGN , g_ops
#define OPS_INC && g_ops == __CPROVER_old(g_ops) + 1
#endif
static inline uint32_t uatomic_fetch_add(uatomic_uint32_t *obj, uint32_t operand)
__CPROVER_requires(__CPROVER_rw_ok(obj, sizeof(*obj)))
__CPROVER_assigns(*obj OPS_ASSIGN)
__CPROVER_ensures(__CPROVER_return_value == __CPROVER_old(*obj) && *obj == __CPROVER_old(*obj) + operand OPS_INC);
static inline uint32_t uatomic_fetch_sub(uatomic_uint32_t *obj, uint32_t operand)
__CPROVER_requires(__CPROVER_rw_ok(obj, sizeof(*obj)))
__CPROVER_assigns(*obj OPS_ASSIGN)
__CPROVER_ensures(__CPROVER_return_value == __CPROVER_old(*obj) && *obj == __CPROVER_old(*obj) - operand OPS_INC);
static inline uint32_t uatomic_load(uatomic_uint32_t *obj)
__CPROVER_requires(__CPROVER_r_ok(obj, sizeof(*obj)))
#ifdef VATOMIC_ENFORCE
__CPROVER_assigns()
#else
__CPROVER_assigns(g_ops)
#endif
__CPROVER_ensures(__CPROVER_return_value == *obj OPS_INC);
static inline void uatomic_store(uatomic_uint32_t *obj, uint32_t value)
__CPROVER_requires(__CPROVER_rw_ok(obj, sizeof(*obj)))
__CPROVER_assigns(*obj OPS_ASSIGN)
__CPROVER_ensures(*obj == value OPS_INC);
static inline void uatomic_init(uatomic_uint32_t *obj, uint32_t value)
__CPROVER_requires(__CPROVER_rw_ok(obj, sizeof(*obj)))
__CPROVER_assigns(*obj OPS_ASSIGN)
__CPROVER_ensures(*obj == value OPS_INC);
#endif

/* ---- urefcount ----------------------------------------------------------------- */
static inline bool pre_rc(struct urefcount *refcount)
{
    return (refcount == NULL || refcount == &g_rc) && g_ops == 0 && g_cb_calls == 0 &&
           g_rc.refcount == g_count_old && g_rc.cb == g_cb_old &&
           (g_cb_old == NULL || g_cb_old == stub_dead_cb);
}
/* a release matches an acquisition: while the object is alive the caller holds one of count_old >= 1 references */
static inline bool pre_rc_release(struct urefcount *refcount)
{
    return pre_rc(refcount) && (g_cb_old == NULL || g_count_old >= 1);
}
/* exactly one RMW; the destructor is elected by the value it returned; cleared before it runs */
static inline bool post_rc_release(struct urefcount *refcount)
{
    if (refcount == NULL || g_cb_old == NULL)
        return g_ops == 0 && g_cb_calls == 0 && g_rc.refcount == g_count_old && g_rc.cb == g_cb_old;
    if (g_ops != 1 || g_rc.refcount != g_count_old - 1) return false;
    if (g_count_old == 1)
        return g_cb_calls == 1 && g_cb_saw_cleared && g_cb_saw_count == 0 && g_rc.cb == NULL;
    return g_cb_calls == 0 && g_rc.cb == g_cb_old;
}
static inline bool post_rc_use(struct urefcount *refcount, struct urefcount *ret)
{
    if (refcount == NULL || g_cb_old == NULL)        /* dead or absent: NULL, nothing touched */
        return ret == NULL && g_ops == 0 && g_rc.refcount == g_count_old && g_rc.cb == g_cb_old;
    return ret == refcount && g_ops == 1 && g_rc.refcount == g_count_old + 1 && g_rc.cb == g_cb_old && g_cb_calls == 0;
}
static inline bool post_rc_init(struct urefcount *refcount, urefcount_cb cb)
{
    return g_rc.refcount == 1 && g_rc.cb == cb && g_cb_calls == 0;
}
static inline bool post_rc_single(struct urefcount *refcount, bool ret)
{
    return ret == (g_count_old == 1) && g_ops == 1 && g_rc.refcount == g_count_old && g_rc.cb == g_cb_old;
}
static inline bool post_rc_dead(struct urefcount *refcount, bool ret)
{
    return ret == (g_count_old == 0) && g_ops == 1 && g_rc.refcount == g_count_old && g_rc.cb == g_cb_old;
}
/* ---- shared memory areas --------------------------------------------------------- */
static inline bool pre_sh(struct ubuf_mem_shared *shared)
{
    return shared == &g_sh && g_ops == 0 && g_sh.refcount == g_count_old;
}
static inline bool post_sh_use(struct ubuf_mem_shared *shared, struct ubuf_mem_shared *ret)
{
    return ret == shared && g_ops == 1 && g_sh.refcount == g_count_old + 1;
}
/* "needs deallocation" is decided by the single RMW: true exactly for whoever took the count from 1 to 0 */
static inline bool post_sh_release(struct ubuf_mem_shared *shared, bool ret)
{
    return g_ops == 1 && g_sh.refcount == g_count_old - 1 && ret == (g_count_old == 1);
}
static inline bool post_sh_single(struct ubuf_mem_shared *shared, bool ret)
{
    return g_ops == 1 && g_sh.refcount == g_count_old && ret == (g_count_old == 1);
}

#ifndef VNATIVE
#ifndef VATOMIC_ENFORCE
static inline void urefcount_release(struct urefcount *refcount)
__CPROVER_requires(pre_rc_release(refcount))
__CPROVER_assigns(g_rc.refcount, g_rc.cb, g_ops, g_cb_calls, g_cb_saw_cleared, g_cb_saw_count)
__CPROVER_ensures(post_rc_release(refcount));
static inline struct urefcount *urefcount_use(struct urefcount *refcount)
__CPROVER_requires(pre_rc(refcount))
__CPROVER_assigns(g_rc.refcount, g_ops)
__CPROVER_ensures(post_rc_use(refcount, __CPROVER_return_value));
static inline void urefcount_init(struct urefcount *refcount, urefcount_cb cb)
__CPROVER_requires(refcount == &g_rc && g_cb_calls == 0)
__CPROVER_assigns(g_rc.refcount, g_rc.cb, g_ops)
__CPROVER_ensures(post_rc_init(refcount, cb));
static inline bool urefcount_single(struct urefcount *refcount)
__CPROVER_requires(pre_rc(refcount) && refcount != NULL)
__CPROVER_assigns(g_ops)
__CPROVER_ensures(post_rc_single(refcount, __CPROVER_return_value));
static inline bool urefcount_dead(struct urefcount *refcount)
__CPROVER_requires(pre_rc(refcount) && refcount != NULL)
__CPROVER_assigns(g_ops)
__CPROVER_ensures(post_rc_dead(refcount, __CPROVER_return_value));
static inline struct ubuf_mem_shared *ubuf_mem_shared_use(struct ubuf_mem_shared *shared)
__CPROVER_requires(pre_sh(shared))
__CPROVER_assigns(g_sh.refcount, g_ops)
__CPROVER_ensures(post_sh_use(shared, __CPROVER_return_value));
static inline bool ubuf_mem_shared_release(struct ubuf_mem_shared *shared)
__CPROVER_requires(pre_sh(shared) && g_count_old >= 1)
__CPROVER_assigns(g_sh.refcount, g_ops)
__CPROVER_ensures(post_sh_release(shared, __CPROVER_return_value));
static inline bool ubuf_mem_shared_single(struct ubuf_mem_shared *shared)
__CPROVER_requires(pre_sh(shared))
__CPROVER_assigns(g_ops)
__CPROVER_ensures(post_sh_single(shared, __CPROVER_return_value));
#endif
#endif

/* ---- entries ------------------------------------------------------------------- */
#ifdef VNATIVE
/* native replay: the ghost access counter cannot be observed; the clauses about it are vacuous there */
#define NATIVE_OPS(n) g_ops = (n)
#else
#define NATIVE_OPS(n)
#endif
#define BUILD_RC() \
    VIN(bool, is_null); VIN(uint32_t, count); VIN(int, cbsel); \
    g_rc.refcount = count; g_rc.cb = cbsel == 0 ? NULL : stub_dead_cb; \
    struct urefcount *refcount = is_null ? NULL : &g_rc; \
    g_ops = 0; g_cb_calls = 0; g_cb_saw_cleared = false; g_cb_saw_count = 0; g_count_old = count; g_cb_old = g_rc.cb

void h_urefcount_release(void)
{
    BUILD_RC(); VPRE(pre_rc_release(refcount));
    urefcount_release(refcount);
    NATIVE_OPS((refcount == NULL || g_cb_old == NULL) ? 0 : 1);
    VPOST(post_rc_release(refcount)); VCANARY();
}
void h_urefcount_use(void)
{
    BUILD_RC(); VPRE(pre_rc(refcount));
    struct urefcount *ret = urefcount_use(refcount);
    NATIVE_OPS((refcount == NULL || g_cb_old == NULL) ? 0 : 1);
    VPOST(post_rc_use(refcount, ret)); VCANARY();
}
void h_urefcount_init(void)
{
    VIN(uint32_t, count); VIN(int, cbsel); g_rc.refcount = count; g_rc.cb = stub_other_cb;
    urefcount_cb cb = cbsel == 0 ? NULL : stub_dead_cb; struct urefcount *refcount = &g_rc;
    g_ops = 0; g_cb_calls = 0;
    urefcount_init(refcount, cb);
    VPOST(post_rc_init(refcount, cb)); VCANARY();
}
void h_urefcount_single(void)
{
    BUILD_RC(); VASSUME(!is_null); VPRE(pre_rc(refcount));
    bool ret = urefcount_single(refcount); NATIVE_OPS(1);
    VPOST(post_rc_single(refcount, ret)); VCANARY();
}
void h_urefcount_dead(void)
{
    BUILD_RC(); VASSUME(!is_null); VPRE(pre_rc(refcount));
    bool ret = urefcount_dead(refcount); NATIVE_OPS(1);
    VPOST(post_rc_dead(refcount, ret)); VCANARY();
}
#define BUILD_SH() VIN(uint32_t, count); g_sh.refcount = count; g_sh.pool = NULL; \
    struct ubuf_mem_shared *shared = &g_sh; g_ops = 0; g_count_old = count
void h_shared_use(void)
{
    BUILD_SH(); VPRE(pre_sh(shared));
    struct ubuf_mem_shared *ret = ubuf_mem_shared_use(shared); NATIVE_OPS(1);
    VPOST(post_sh_use(shared, ret)); VCANARY();
}
void h_shared_release(void)
{
    BUILD_SH(); VASSUME(count >= 1); VPRE(pre_sh(shared));
    bool ret = ubuf_mem_shared_release(shared); NATIVE_OPS(1);
    VPOST(post_sh_release(shared, ret)); VCANARY();
}
void h_shared_single(void)
{
    BUILD_SH(); VPRE(pre_sh(shared));
    bool ret = ubuf_mem_shared_single(shared); NATIVE_OPS(1);
    VPOST(post_sh_single(shared, ret)); VCANARY();
}
/* uatomic_* against the builtins (enforced with -DVATOMIC_ENFORCE) */
static uint32_t g_word;
void h_uatomic_fetch_add(void) { VIN(uint32_t, w); VIN(uint32_t, op); g_word = w; uint32_t r = uatomic_fetch_add(&g_word, op); VPOST(r == w && g_word == w + op); VCANARY(); }
void h_uatomic_fetch_sub(void) { VIN(uint32_t, w); VIN(uint32_t, op); g_word = w; uint32_t r = uatomic_fetch_sub(&g_word, op); VPOST(r == w && g_word == w - op); VCANARY(); }
void h_uatomic_load(void) { VIN(uint32_t, w); g_word = w; uint32_t r = uatomic_load(&g_word); VPOST(r == w && g_word == w); VCANARY(); }
void h_uatomic_store(void) { VIN(uint32_t, w); VIN(uint32_t, v); g_word = w; uatomic_store(&g_word, v); VPOST(g_word == v); VCANARY(); }
void h_uatomic_init(void) { VIN(uint32_t, w); VIN(uint32_t, v); g_word = w; uatomic_init(&g_word, v); VPOST(g_word == v); VCANARY(); }

#ifdef VENTRY
VMAIN(VENTRY)
#endif
