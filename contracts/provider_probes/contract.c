/* Contract unit: lib/upipe/uprobe_uref_mgr.c, uprobe_uclock.c, uprobe_upump_mgr.c (included whole)
 * (property C12: "a request ... is forwarded down the chain until a pipe or a probe provides it, and the answer reaches the
 *  original requester"; C01 for the references a provider probe holds)
 *
 * A provider probe sits in a probe chain in front of `next` (a recording stub).  For every event and every request type:
 *   provide_request of the probe's own type, manager present : the requester's callback runs exactly once, with the
 *        probe's manager, for which one reference was taken on the requester's behalf; the event does NOT travel further;
 *        the probe's answer is the callback's;
 *   anything else (another event, another request type, no manager, frozen) : the event goes to the next probe exactly
 *        once, with the same event code and the same request, nothing is provided, no reference moves;
 *   need_upump_mgr (upump_mgr probe): *upump_mgr_p receives the manager with one more reference; freeze / thaw are
 *        absorbed and only change `frozen`;
 *   init takes one reference on the manager, clean gives it back, set swaps old for new (each exactly once).
 */
#include "lib/upipe/uprobe_uref_mgr.c"
#include "lib/upipe/uprobe_uclock.c"
#include "lib/upipe/uprobe_upump_mgr.c"
#include "vspec.h"
#include "vstub_choice.h"
#ifndef WITH_MGR
#define WITH_MGR 1
#endif
static struct urefcount g_rc, g_rc2; static int g_dead, g_dead2;
static void stub_rc_dead(struct urefcount *rc) { if (rc == &g_rc) g_dead++; else g_dead2++; }
static struct uref_mgr g_uref_mgr, g_uref_mgr2; static struct uclock g_uclock; static struct upump_mgr g_upump_mgr;
static struct upipe g_thrower;
/* next probe in the chain: records what reaches it */
static int g_next_calls, g_next_event, g_next_ret; static struct urequest *g_next_req; static void *g_next_arg0;
static int stub_next_throw(struct uprobe *uprobe, struct upipe *upipe, int event, va_list args)
{
    g_next_calls++; g_next_event = event;
    g_next_arg0 = va_arg(args, void *);            /* first argument of the event (the request, for provide_request) */
    g_next_req = event == UPROBE_PROVIDE_REQUEST ? (struct urequest *)g_next_arg0 : NULL;
    return g_next_ret;
}
static struct uprobe g_next;
/* the requester */
static struct urequest g_req; static int g_provided, g_prov_ret; static void *g_prov_arg;
static int stub_provide(struct urequest *r, va_list args) { if (r == &g_req) { g_provided++; g_prov_arg = va_arg(args, void *); } return g_prov_ret; }
static void stub_req_free(struct urequest *r) { }
#define BUILD() \
    g_rc.refcount = 1; g_rc.cb = stub_rc_dead; g_rc2.refcount = 1; g_rc2.cb = stub_rc_dead; g_dead = g_dead2 = 0; \
    g_uref_mgr.refcount = &g_rc; g_uref_mgr2.refcount = &g_rc2; g_uclock.refcount = &g_rc; g_upump_mgr.refcount = &g_rc; \
    g_next.refcount = NULL; g_next.uprobe_throw = stub_next_throw; g_next.next = NULL; \
    g_next_calls = 0; g_next_event = -1; g_next_req = NULL; g_next_arg0 = NULL; g_provided = 0; g_prov_arg = NULL; \
    VIN(int, next_ret); VIN(int, prov_ret); g_next_ret = next_ret; g_prov_ret = prov_ret; \
    VIN(int, rtype); VASSUME(rtype >= UREQUEST_UREF_MGR && rtype <= UREQUEST_LOCAL); \
    urequest_init(&g_req, rtype, NULL, stub_provide, stub_req_free); \
    VIN(uint8_t, evsel); int event = (evsel & 3) == 0 ? UPROBE_PROVIDE_REQUEST : (evsel & 3) == 1 ? UPROBE_NEED_UPUMP_MGR : (evsel & 3) == 2 ? UPROBE_NEED_OUTPUT : UPROBE_FREEZE_UPUMP_MGR + (evsel >> 7)
static int call_throw(int (*fn)(struct uprobe *, struct upipe *, int, va_list), struct uprobe *p, struct upipe *u, int event, ...)
{
    va_list args; va_start(args, event); int r = fn(p, u, event, args); va_end(args); return r;
}
#define POST_FORWARDED(ret, arg0) \
    VPOST(g_next_calls == 1 && g_next_event == event && g_next_arg0 == (void *)(arg0) && ret == next_ret && g_provided == 0 && \
          (int)g_rc.refcount == refs0 && g_dead == 0)

void h_uref_mgr(void)
{
    BUILD();
    struct uprobe_uref_mgr pr;
    struct uprobe *p = uprobe_uref_mgr_init(&pr, &g_next, WITH_MGR ? &g_uref_mgr : NULL);
    VPOST(p == &pr.uprobe && pr.uref_mgr == (WITH_MGR ? &g_uref_mgr : NULL) && (int)g_rc.refcount == (WITH_MGR ? 2 : 1));   /* init takes one reference */
    int refs0 = (int)g_rc.refcount;
    int ret = call_throw(uprobe_uref_mgr_throw, p, &g_thrower, event, &g_req);
    if (event == UPROBE_PROVIDE_REQUEST && WITH_MGR && rtype == UREQUEST_UREF_MGR) {
        VPOST(g_provided == 1 && g_prov_arg == (void *)&g_uref_mgr && ret == prov_ret && g_next_calls == 0);   /* answered here, once, with the manager */
        VPOST((int)g_rc.refcount == refs0 + 1);                                                            /* one reference for the requester */
    } else
        POST_FORWARDED(ret, &g_req);
    /* set swaps the references, clean gives the last one back */
    int before = (int)g_rc.refcount;
    uprobe_uref_mgr_set(p, &g_uref_mgr2);
    VPOST((int)g_rc.refcount == before - (WITH_MGR ? 1 : 0) && (int)g_rc2.refcount == 2 && pr.uref_mgr == &g_uref_mgr2);
    uprobe_uref_mgr_clean(&pr);
    VPOST((int)g_rc2.refcount == 1 && g_dead2 == 0);
    VCANARY();
}
void h_uclock(void)
{
    BUILD();
    struct uprobe_uclock pr;
    struct uprobe *p = uprobe_uclock_init(&pr, &g_next, WITH_MGR ? &g_uclock : NULL);
    VPOST(p == &pr.uprobe && (int)g_rc.refcount == (WITH_MGR ? 2 : 1));
    int refs0 = (int)g_rc.refcount;
    int ret = call_throw(uprobe_uclock_throw, p, &g_thrower, event, &g_req);
    if (event == UPROBE_PROVIDE_REQUEST && WITH_MGR && rtype == UREQUEST_UCLOCK) {
        VPOST(g_provided == 1 && g_prov_arg == (void *)&g_uclock && ret == prov_ret && g_next_calls == 0);
        VPOST((int)g_rc.refcount == refs0 + 1);
    } else
        POST_FORWARDED(ret, &g_req);
    int before = (int)g_rc.refcount;
    uprobe_uclock_clean(&pr);
    VPOST((int)g_rc.refcount == before - (WITH_MGR ? 1 : 0) && g_dead == 0);
    VCANARY();
}
void h_upump_mgr(void)
{
    BUILD();
    struct uprobe_upump_mgr pr; VIN(uint8_t, frozen);
    struct uprobe *p = uprobe_upump_mgr_init(&pr, &g_next, WITH_MGR ? &g_upump_mgr : NULL);
    VPOST(p == &pr.uprobe && !pr.frozen && (int)g_rc.refcount == (WITH_MGR ? 2 : 1));
    pr.frozen = (frozen & 1) != 0;
    int refs0 = (int)g_rc.refcount;
    struct upump_mgr *got = (struct upump_mgr *)1;
    int ret = event == UPROBE_PROVIDE_REQUEST ? call_throw(uprobe_upump_mgr_throw, p, &g_thrower, event, &g_req)
                                              : call_throw(uprobe_upump_mgr_throw, p, &g_thrower, event, &got);
    if (event == UPROBE_FREEZE_UPUMP_MGR || event == UPROBE_THAW_UPUMP_MGR) {
        VPOST(ret == UBASE_ERR_NONE && pr.frozen == (event == UPROBE_FREEZE_UPUMP_MGR) && g_next_calls == 0 && (int)g_rc.refcount == refs0 && got == (struct upump_mgr *)1);
    } else if (event == UPROBE_NEED_UPUMP_MGR && WITH_MGR && !(frozen & 1)) {
        VPOST(ret == UBASE_ERR_NONE && got == &g_upump_mgr && (int)g_rc.refcount == refs0 + 1 && g_next_calls == 0);
    } else {
        POST_FORWARDED(ret, event == UPROBE_PROVIDE_REQUEST ? (void *)&g_req : (void *)&got);
        VPOST(got == (struct upump_mgr *)1 && pr.frozen == ((frozen & 1) != 0));
    }
    int before = (int)g_rc.refcount;
    uprobe_upump_mgr_clean(&pr);
    VPOST((int)g_rc.refcount == before - (WITH_MGR ? 1 : 0) && g_dead == 0);
    VCANARY();
}
#ifdef VENTRY
VMAIN(VENTRY)
#endif
