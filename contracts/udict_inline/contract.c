/* Contract unit: lib/upipe/udict_inline.c (included whole)  (property C10, inline TLV storage)
 *
 * Storage: a TLV list in inl->umem.buffer[0, inl->size): named entries  type(1) size(2, big endian) name\0 value,
 * shorthand entries type(1) [size(2)] value, END at offset size-1.  The pre-state is ANY well-formed storage
 * (WF_tlv, below: nondeterministic octets constrained by a specification walk, not a script of set calls) with
 * at most MAXATTR entries in at most CAP octets. Map semantics are stated as lemmas over the real functions:
 *   get-after-set      : set(k, n) accepted  ==>  get(k) finds a slot of n octets, the one set returned;
 *   frame of set/delete: for any OTHER key k' (ghost key: any name — including a prefix or an extension of k — and any
 *                        type), get(k') answers after the operation what it answered before: same presence, same size,
 *                        same octets (ghost octet index);
 *   get-after-delete   : delete(k) accepted ==> get(k) reports absent; delete of an absent key is refused and changes nothing;
 *   WF_tlv preserved by set and delete (so every later operation starts from a well-formed storage);
 *   iterate            : starting from END visits exactly the entries of the storage, each once, and stops.
 * Shape bound: MAXATTR entries, CAP octets, names of at most 3 characters, values of at most 8 octets (larger values
 * only change lengths: the size arithmetic is 16-bit and covered by the header-size obligations).
 */
/* the lock-free structure pool (C07) is replaced by its sequential contract: alloc hands out a structure obtained
 * from the pool's alloc callback (here: one static object) or NULL, free gives it back; both are counted */
#include <upipe/upool.h>
static inline void *stub_upool_alloc_internal(struct upool *upool);
static inline void stub_upool_free(struct upool *upool, void *obj);
#define upool_alloc_internal stub_upool_alloc_internal
#define upool_free stub_upool_free
#include "lib/upipe/udict_inline.c"
#include "vspec.h"
#include "vstub_choice.h"

#ifndef MAXATTR
#define MAXATTR 2
#endif
#ifndef CAP
#define CAP 28
#endif
#define GROW 48                   /* size of the second buffer handed out by the realloc stub */
static struct udict_inline_mgr g_im; static struct udict_inline g_inl;
static uint8_t g_store[CAP], g_store2[GROW];
static struct umem_mgr g_umgr;
static int g_reallocs;
/* second dictionary (dup / alloc): pool object and memory handed out by the stubs */
static struct udict_inline g_inl2; static uint8_t g_store3[CAP];
static int g_pool_live, g_pool_allocs, g_umem_live, g_umem_allocs; static size_t g_umem_req;
static inline void *stub_upool_alloc_internal(struct upool *upool)
{
    g_pool_allocs++;
    if (g_pool_live > 0) return NULL;
    g_pool_live++; g_inl2.udict.mgr = &g_im.mgr;
    return &g_inl2;
}
static inline void stub_upool_free(struct upool *upool, void *obj) { if (obj == &g_inl2) g_pool_live--; else g_pool_live = -100; }
static bool stub_umem_alloc(struct umem_mgr *mgr, struct umem *umem, size_t size)
{
    g_umem_allocs++; g_umem_req = size;
    if (size > CAP || g_umem_live > 0 || (VS_CHOICE(umem_alloc_fails) & 1)) return false;
    g_umem_live++;
    { uint8_t junk = (uint8_t)VS_CHOICE(umem_junk); for (int k = 0; k < CAP; k++) g_store3[k] = junk; }      /* fresh memory holds anything */
    umem->mgr = mgr; umem->buffer = g_store3; umem->size = size; umem->real_size = CAP;
    return true;
}
static void stub_umem_free(struct umem *umem) { if (umem->buffer == g_store3) g_umem_live--; else g_umem_live = -100; }
static bool stub_umem_realloc(struct umem *umem, size_t new_size)
{
    g_reallocs++;
    if (new_size > GROW || (VS_CHOICE(realloc_fails) & 1)) return false;
    /* as a reallocating manager: the content moves to a new place */
    for (size_t k = 0; k < CAP; k++) { if (k >= umem->size) break; g_store2[k] = umem->buffer[k]; }
    umem->buffer = g_store2; umem->size = new_size; umem->real_size = new_size;
    return true;
}

/* ---- spec: well-formedness walk ------------------------------------------------------------------------ */
#define NSH (sizeof(inline_shorthands) / sizeof(inline_shorthands[0]))
/* length of entry at offset o (header + value), 0 if malformed; *is_end set on the END marker */
static inline size_t spec_entry_len(const uint8_t *b, size_t size, size_t o, bool *is_end)
{
    *is_end = false;
    if (o >= size) return 0;
    uint8_t t = b[o];
    if (t == UDICT_TYPE_END) { *is_end = true; return 1; }
    if (t > UDICT_TYPE_SHORTHAND) {
        if ((size_t)(t - UDICT_TYPE_SHORTHAND - 1) >= NSH) return 0;
        enum udict_type base = inline_shorthands[t - UDICT_TYPE_SHORTHAND - 1].base_type;
        if (base != UDICT_TYPE_OPAQUE && base != UDICT_TYPE_STRING) return 1 + attr_sizes[base];
        if (o + 3 > size) return 0;
        return 3 + (((size_t)b[o + 1] << 8) | b[o + 2]);
    }
    if (t == UDICT_TYPE_SHORTHAND || t > UDICT_TYPE_FLOAT) return 0;
    if (o + 3 > size) return 0;
    size_t sz = ((size_t)b[o + 1] << 8) | b[o + 2];
    if (o + 3 + sz > size) return 0;
    /* the name is terminated inside the entry, at most 3 characters; fixed-size base types carry their size */
    size_t nl = 0; bool term = false;
    for (int k = 0; k < 4; k++) { if ((size_t)k >= sz) break; if (b[o + 3 + k] == 0) { term = true; nl = k; break; } }
    if (!term) return 0;
    if (t != UDICT_TYPE_OPAQUE && t != UDICT_TYPE_STRING && sz - nl - 1 != attr_sizes[t]) return 0;
    return 3 + sz;
}
/* WF_tlv: entries tile [0, size-1), END at size-1, at most MAXATTR of them; returns the entry count or -1 */
static inline int spec_wf_tlv_n(const uint8_t *b, size_t size, size_t cap, int maxn)
{
    if (size < 1 || size > cap) return -1;
    size_t o = 0;
    for (int n = 0; n <= MAXATTR + 1; n++) {
        if (n > maxn) return -1;
        bool end; size_t l = spec_entry_len(b, size, o, &end);
        if (l == 0) return -1;
        if (end) return o == size - 1 ? n : -1;
        o += l;
        if (o >= size) return -1;
    }
    return -1;
}
static inline int spec_wf_tlv(const uint8_t *b, size_t size, size_t cap) { return spec_wf_tlv_n(b, size, cap, MAXATTR); }
/* keys are unique: no two entries with the same type and (for named types) the same name */
static inline bool spec_same_key_at(const uint8_t *b, size_t o1, size_t o2)
{
    if (b[o1] != b[o2]) return false;
    if (b[o1] > UDICT_TYPE_SHORTHAND) return true;
    for (int k = 0; k < 4; k++) { if (b[o1 + 3 + k] != b[o2 + 3 + k]) return false; if (b[o1 + 3 + k] == 0) return true; }
    return true;
}
static inline bool spec_unique(const uint8_t *b, size_t size)
{
    size_t off[MAXATTR + 2]; int n = 0; size_t o = 0;
    for (int k = 0; k <= MAXATTR; k++) {
        bool end; size_t l = spec_entry_len(b, size, o, &end);
        if (l == 0 || end) break;
        off[n++] = o; o += l;
    }
    for (int i = 0; i < MAXATTR + 1; i++) for (int j = 0; j < MAXATTR + 1; j++)
        if (i < j && j < n && spec_same_key_at(b, off[i], off[j])) return false;
    return true;
}
/* entry-side copies */
static inline size_t H_spec_entry_len(const uint8_t *b, size_t size, size_t o, bool *is_end)
{
    return spec_entry_len(b, size, o, is_end);
}
static inline int H_spec_wf_tlv(const uint8_t *b, size_t size, size_t cap) { return spec_wf_tlv(b, size, cap); }

/* ---- entries ------------------------------------------------------------------------------------------------ */
static struct udict *build_dict(const uint8_t *bytes, size_t size)
{
    g_umgr.umem_realloc = stub_umem_realloc; g_umgr.umem_alloc = stub_umem_alloc; g_umgr.umem_free = stub_umem_free;
    g_pool_live = g_pool_allocs = g_umem_live = g_umem_allocs = 0; g_umem_req = 0;
    g_im.min_size = 0; g_im.extra_size = 8; g_im.umem_mgr = &g_umgr;
    g_im.mgr.udict_alloc = udict_inline_alloc; g_im.mgr.udict_control = udict_inline_control; g_im.mgr.udict_free = udict_inline_free;
    g_im.mgr.udict_mgr_control = udict_inline_mgr_control;
    for (int k = 0; k < CAP; k++) g_store[k] = bytes[k];
    g_inl.umem.mgr = &g_umgr; g_inl.umem.buffer = g_store; g_inl.umem.size = CAP; g_inl.umem.real_size = CAP;
    g_inl.size = size; g_inl.udict.mgr = &g_im.mgr;
    g_reallocs = 0;
    return &g_inl.udict;
}
/* a key: a name of at most 3 characters (k1 may be a prefix / extension of k2) and a type, named or shorthand */
#define KEY(nm, ty, pre) \
    VIN_ARR(uint8_t, pre##chars, 4); VIN(uint8_t, pre##type); char nm[4]; \
    for (int k_ = 0; k_ < 3; k_++) nm[k_] = (char)pre##chars[k_]; nm[3] = 0; \
    VASSUME(pre##type >= 1 && ((pre##type <= UDICT_TYPE_FLOAT) || (pre##type > UDICT_TYPE_SHORTHAND && (size_t)(pre##type - UDICT_TYPE_SHORTHAND - 1) < NSH))); \
    enum udict_type ty = (enum udict_type)pre##type
#define SAME_KEY(n1, t1, n2, t2) ((t1) == (t2) && ((t1) > UDICT_TYPE_SHORTHAND || !strcmp(n1, n2)))
#define BUILD() \
    VIN_ARR(uint8_t, bytes, CAP); VIN(size_t, used); \
    VASSUME(H_spec_wf_tlv(bytes, used, CAP) >= 0 && spec_unique(bytes, used)); \
    struct udict *d = build_dict(bytes, used); \
    VIN(uint8_t, gi)
/* answer of get(k): presence, size and octet gi of the value */
struct vget { bool found; size_t size; uint8_t octet; const uint8_t *p; };
static struct vget do_get(struct udict *d, const char *name, enum udict_type type, uint8_t gi)
{
    struct vget r = { false, 0, 0, NULL }; size_t sz = 0; const uint8_t *p = NULL;
    if (udict_inline_get(d, name, type, &sz, &p) == UBASE_ERR_NONE) { r.found = true; r.size = sz; r.p = p; r.octet = gi < sz ? p[gi] : 0; }
    return r;
}
#define SAME_ANSWER(a, b) ((a).found == (b).found && (!(a).found || ((a).size == (b).size && (a).octet == (b).octet)))

void h_set(void)
{
    BUILD(); KEY(k1, t1, a_); KEY(k2, t2, b_);
    VIN(uint8_t, n); VASSUME(n <= 8);
    /* fixed-size types are set with their size (as the typed setters do) */
    { enum udict_type base_ = t1 > UDICT_TYPE_SHORTHAND ? inline_shorthands[t1 - UDICT_TYPE_SHORTHAND - 1].base_type : t1;
      if (base_ != UDICT_TYPE_OPAQUE && base_ != UDICT_TYPE_STRING) VASSUME(n == attr_sizes[base_]); }
#ifdef SET_KIND
    /* case split on the kind of the key being set (one group each): shorthand or named */
    VASSUME(SET_KIND ? t1 > UDICT_TYPE_SHORTHAND : t1 <= UDICT_TYPE_FLOAT);
#endif
    VASSUME(!SAME_KEY(k1, t1, k2, t2));
    struct vget before = do_get(d, k2, t2, gi);
    uint8_t *slot = NULL;
    int ret = udict_inline_set(d, k1, t1, n, &slot);
    struct vget mine = do_get(d, k1, t1, gi), after = do_get(d, k2, t2, gi);
    VPOST(ret != UBASE_ERR_NONE || (mine.found && mine.size == n && mine.p == slot));          /* get after set */
    VPOST(SAME_ANSWER(before, after));                                                             /* other keys untouched */
    VPOST(spec_wf_tlv_n(g_inl.umem.buffer, g_inl.size, g_inl.umem.size, MAXATTR + 1) >= 0);         /* WF preserved (one more entry at most) */
    VCANARY();
}
void h_delete(void)
{
    BUILD(); KEY(k1, t1, a_); KEY(k2, t2, b_);
    VASSUME(!SAME_KEY(k1, t1, k2, t2));
    struct vget was = do_get(d, k1, t1, gi), before = do_get(d, k2, t2, gi);
    size_t size_old = g_inl.size;
    int ret = udict_inline_delete(d, k1, t1);
    struct vget mine = do_get(d, k1, t1, gi), after = do_get(d, k2, t2, gi);
    VPOST((ret == UBASE_ERR_NONE) == was.found);                 /* deleting an absent key is refused */
    VPOST(!mine.found);                                          /* absent afterwards (keys are unique in a WF storage) */
    VPOST(SAME_ANSWER(before, after));
    VPOST(ret == UBASE_ERR_NONE || g_inl.size == size_old);
    VPOST(H_spec_wf_tlv(g_inl.umem.buffer, g_inl.size, g_inl.umem.size) >= 0);
    VCANARY();
}
/* get against the specification's own lookup (absolute, not relative to find): first entry whose type is the key's
 * and, for named types, whose name equals the key's name up to and including the terminator */
static inline bool spec_entry_matches(const uint8_t *b, size_t o, const char *name, enum udict_type type)
{
    if (b[o] != (uint8_t)type) return false;
    if (type > UDICT_TYPE_SHORTHAND) return true;
    for (int k = 0; k < 4; k++) { if (b[o + 3 + k] != (uint8_t)name[k]) return false; if (name[k] == 0) return true; }
    return true;
}
void h_get(void)
{
    BUILD(); KEY(k1, t1, a_);
    /* specification lookup */
    bool exp_found = false; size_t exp_off = 0, exp_size = 0; size_t o = 0;
    for (int k = 0; k <= MAXATTR; k++) {
        bool end; size_t l = H_spec_entry_len(bytes, used, o, &end);
        if (l == 0 || end) break;
        if (spec_entry_matches(bytes, o, k1, t1)) {
            exp_found = true;
            if (t1 > UDICT_TYPE_SHORTHAND) {
                enum udict_type base = inline_shorthands[t1 - UDICT_TYPE_SHORTHAND - 1].base_type;
                bool var = base == UDICT_TYPE_OPAQUE || base == UDICT_TYPE_STRING;
                exp_off = o + (var ? 3 : 1); exp_size = l - (var ? 3 : 1);
            } else {
                size_t nl = 0; for (int j = 0; j < 4; j++) { if (k1[j] == 0) { nl = j; break; } }
                exp_off = o + 4 + nl; exp_size = l - 4 - nl;
            }
            break;
        }
        o += l;
    }
    size_t sz = 0; const uint8_t *p = NULL;
    int ret = udict_inline_get(d, k1, t1, &sz, &p);
    VPOST((ret == UBASE_ERR_NONE) == exp_found);
    VPOST(!exp_found || (p == g_store + exp_off && sz == exp_size));
    VCANARY();
}
void h_iterate(void)
{
    BUILD();
    int count = H_spec_wf_tlv(g_inl.umem.buffer, g_inl.size, g_inl.umem.size);
    const char *name = NULL; enum udict_type type = UDICT_TYPE_END; int seen = 0; bool each_found = true;
    for (int k = 0; k < MAXATTR + 1; k++) {
        udict_inline_iterate(d, &name, &type);
        if (type == UDICT_TYPE_END) break;
        seen++;
        if (!do_get(d, name, type, gi).found) each_found = false;       /* what iteration reports can be looked up */
    }
    VPOST(type == UDICT_TYPE_END || seen > MAXATTR);
    VPOST(each_found);
#ifdef UNIQUE_KEYS
    VPOST(seen == count);
#else
    VPOST(seen <= count);        /* (with duplicate keys in the arbitrary storage iteration restarts after the first duplicate) */
#endif
    VCANARY();
}

/* dup: the copy answers every lookup as the original does (ghost key, ghost octet), from storage of its own; the original
 * is untouched; a failed dup leaves nothing allocated.  Then a set on the copy does not change what the original answers
 * ("a duplicate is independent of its original"). */
void h_dup(void)
{
    BUILD(); KEY(k1, t1, a_); KEY(k2, t2, b_);
    VIN(uint8_t, minsz); VASSUME(minsz >= 1 && minsz <= CAP); g_im.min_size = minsz;      /* manager invariant: udict_inline_mgr_alloc stores a positive minimum */
    struct vget before = do_get(d, k2, t2, gi);
    struct udict *nd = NULL;
    int ret = udict_inline_dup(d, &nd);
    struct vget after = do_get(d, k2, t2, gi);
    VPOST(SAME_ANSWER(before, after) && g_inl.size == used && g_inl.umem.buffer == g_store);
    if (ret == UBASE_ERR_NONE) {
        VPOST(nd == &g_inl2.udict && nd->mgr == &g_im.mgr && g_inl2.umem.buffer == g_store3 && g_inl2.size == used && g_umem_req >= used);
        VPOST(g_pool_live == 1 && g_umem_live == 1);
        struct vget copy = do_get(nd, k2, t2, gi);
        VPOST(SAME_ANSWER(before, copy));
        VPOST(H_spec_wf_tlv(g_inl2.umem.buffer, g_inl2.size, g_inl2.umem.size) >= 0);
        /* independence: change the copy, the original still answers the same */
        VIN(uint8_t, n); VASSUME(n <= 8);
        { enum udict_type base_ = t1 > UDICT_TYPE_SHORTHAND ? inline_shorthands[t1 - UDICT_TYPE_SHORTHAND - 1].base_type : t1;
          if (base_ != UDICT_TYPE_OPAQUE && base_ != UDICT_TYPE_STRING) VASSUME(n == attr_sizes[base_]); }
        uint8_t *slot = NULL; VIN(uint8_t, fill);
        if (udict_inline_set(nd, k1, t1, n, &slot) == UBASE_ERR_NONE && slot != NULL)
            for (int k = 0; k < 8; k++) { if (k >= n) break; slot[k] = fill; }
        struct vget orig = do_get(d, k2, t2, gi);
        VPOST(SAME_ANSWER(before, orig) && g_inl.size == used);
    } else {
        VPOST(g_pool_live == 0 && g_umem_live == 0);
    }
    VCANARY();
}
/* alloc gives an empty dictionary (every lookup absent, iteration ends at once); free gives back memory and structure once */
void h_alloc_free(void)
{
    BUILD(); KEY(k2, t2, b_); VIN(uint8_t, asize);
    VIN(uint8_t, minsz); VASSUME(minsz >= 1 && minsz <= CAP); g_im.min_size = minsz;      /* manager invariant: udict_inline_mgr_alloc stores a positive minimum */
    struct udict *nd = udict_inline_alloc(&g_im.mgr, asize);
    if (nd != NULL) {
        VPOST(nd == &g_inl2.udict && g_pool_live == 1 && g_umem_live == 1 && g_inl2.size == 1 && g_umem_req >= 1);
        VPOST(!do_get(nd, k2, t2, gi).found);
        const char *name = NULL; enum udict_type type = UDICT_TYPE_END;
        udict_inline_iterate(nd, &name, &type);
        VPOST(type == UDICT_TYPE_END);
        udict_inline_free(nd);
        VPOST(g_pool_live == 0 && g_umem_live == 0);
    } else
        VPOST(g_pool_live == 0 && g_umem_live == 0);
    VCANARY();
}
#ifdef VENTRY
VMAIN(VENTRY)
#endif
