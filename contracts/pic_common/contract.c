/* Contract unit: lib/upipe/ubuf_pic_common.c (included whole)  (property C19, picture part)
 *
 * Representation (ubuf_pic_common.h): plane p's `buffer` is the origin of the plane's allocation ("in front of
 * vprepend and hmprepend") and never moves; the visible window is hmsize macropixels x vsize lines placed after
 * hmprepend macropixels / vprepend lines of margin; hmappend / vappend are the margins after it. The address of
 * pixel column x (pixels), line y of plane p is
 *     buffer + ((vprepend + y) / vsub) * stride + ((hmprepend + x / macropixel) / hsub) * macropixel_size.
 * INV_pic: hmprepend + hmsize + hmappend == G_HM and vprepend + vsize + vappend == G_V (the allocated extent,
 * constant over the buffer's life).
 *   plane_map accepted ==> offsets/sizes are multiples of the plane's granularity, the normalised window lies in
 *                          [0, hsize] x [0, vsize], the pointer is the address of its first pixel, and (lexicographic
 *                          form) first line + lines <= allocated lines, first column octet + width <= row octets;
 *   plane_map refuses a known chroma only when one of those conditions fails;
 *   resize accepted    ==> INV_pic preserved with the same G_HM / G_V (the window stays inside the allocation),
 *                          hmprepend' == hmprepend + hskip/macropixel, vprepend' == vprepend + vskip (every surviving
 *                          pixel keeps its address, since buffer and stride do not change), sizes as requested;
 *   resize refused     ==> nothing changed.
 */
#include "lib/upipe/ubuf_pic_common.c"
#include "vspec.h"

#define MAXPL 4
#define MAXDIM (1u << 13)          /* bound on every window / margin field built by the harness (macropixels, lines) */

/* ---- objects built by the entries ------------------------------------------ */
static struct ubuf_pic_common_mgr g_mgr;
static struct ubuf_pic_common_mgr_plane g_mp[MAXPL];
static struct ubuf_pic_common_mgr_plane *g_mplanes[MAXPL];
static char g_chroma[MAXPL][4];
/* the ubuf: a static object (structure + MAXPL plane slots of its flexible array member) */
static struct { struct ubuf_pic_common c; struct ubuf_pic_common_plane slots[MAXPL]; } g_obj;
#define g_common (&g_obj.c)

/* ---- ghost state -------------------------------------------------------------- */
static int g_pi;                     /* ghost plane index < nb_planes */
static int g_plane;                  /* plane designated by the chroma argument, -1 if unknown */
static size_t G_HM, G_V;             /* allocated extent (macropixels, lines) */
static struct { size_t hmprepend, hmappend, hmsize, vprepend, vappend, vsize; } g_old;
static uint8_t *g_oldbuf[MAXPL]; static size_t g_oldstride[MAXPL];
static uint8_t *g_out_old;

/* ---- spec ------------------------------------------------------------------------ */
#define SPEC_MGR_OK_BODY \
    if (g_mgr.macropixel < 1 || g_mgr.macropixel > 6 || g_mgr.nb_planes < 1 || g_mgr.nb_planes > MAXPL) return false; \
    for (int p = 0; p < MAXPL; p++) { \
        if (p >= g_mgr.nb_planes) break; \
        uint8_t h = g_mgr.planes[p]->hsub, v = g_mgr.planes[p]->vsub, m = g_mgr.planes[p]->macropixel_size; \
        if (!(h == 1 || h == 2 || h == 4) || !(v == 1 || v == 2 || v == 4) || m < 1 || m > 16) return false; \
    } \
    return true;
static inline bool spec_mgr_ok(void) { SPEC_MGR_OK_BODY }
static inline bool H_spec_mgr_ok(void) { SPEC_MGR_OK_BODY }     /* copy for the entries (contract and entry call trees are kept apart) */
static inline bool spec_inv_pic(void)
{
    return g_common->hmprepend <= G_HM && g_common->hmsize <= G_HM && g_common->hmappend <= G_HM &&
           g_common->vprepend <= G_V && g_common->vsize <= G_V && g_common->vappend <= G_V &&
           g_common->hmprepend + g_common->hmsize + g_common->hmappend == G_HM &&
           g_common->vprepend + g_common->vsize + g_common->vappend == G_V;
}
/* width bound of the harness-built pictures (pre-state only) */
static inline bool spec_bounds(void) { return G_HM <= 3 * MAXDIM && G_V <= 3 * MAXDIM; }
static inline bool spec_unchanged(void)
{
    return g_common->hmprepend == g_old.hmprepend && g_common->hmappend == g_old.hmappend &&
           g_common->hmsize == g_old.hmsize && g_common->vprepend == g_old.vprepend &&
           g_common->vappend == g_old.vappend && g_common->vsize == g_old.vsize &&
           g_common->planes[g_pi].buffer == g_oldbuf[g_pi] && g_common->planes[g_pi].stride == g_oldstride[g_pi];
}
static inline bool pre_pic(struct ubuf *ubuf)
{
    return ubuf == &g_common->ubuf && ubuf->mgr == &g_mgr.mgr && spec_mgr_ok() && spec_inv_pic() && spec_bounds() &&
           g_pi >= 0 && g_pi < g_mgr.nb_planes && spec_unchanged() && g_oldstride[g_pi] <= (1u << 17);
}
static inline int spec_plane_of(char c)
{
    int p = c == 'y' ? 0 : c == 'u' ? 1 : c == 'v' ? 2 : c == 'a' ? 3 : -1;
    return p < g_mgr.nb_planes ? p : -1;
}
/* visible size in pixels, normalised offsets (negative values start from the end) */
static inline int64_t spec_H(void) { return (int64_t)g_old.hmsize * g_mgr.macropixel; }
static inline int64_t spec_ho(int hoffset) { return hoffset < 0 ? spec_H() + hoffset : (int64_t)hoffset; }
static inline int64_t spec_vo(int voffset) { return voffset < 0 ? (int64_t)g_old.vsize + voffset : (int64_t)voffset; }
/* divisibility tests are written in the operand types the API uses (an int offset against a size_t granularity), so
 * that the verifier shares the divider circuits with the code instead of proving two 64-bit dividers equivalent */
static inline int spec_ho32(int hoffset) { return hoffset < 0 ? (int)(g_old.hmsize * g_mgr.macropixel + hoffset) : hoffset; }
static inline int spec_vo32(int voffset) { return voffset < 0 ? (int)(g_old.vsize + voffset) : voffset; }
/* the request designates a window of plane p inside the visible picture, on the plane's granularity */
static inline bool spec_window_ok(int p, int hoffset, int voffset, int hsize, int vsize)
{
    size_t hgran = g_mgr.macropixel * g_mgr.planes[p]->hsub, vgran = g_mgr.planes[p]->vsub;
    int64_t ho = spec_ho(hoffset), vo = spec_vo(voffset);
    if (ho < 0 || vo < 0 || ho > spec_H() || vo > (int64_t)g_old.vsize) return false;
    if (spec_ho32(hoffset) % hgran || spec_vo32(voffset) % vgran) return false;
    if (hsize >= 0 && (hsize % hgran || ho + hsize > spec_H())) return false;
    if (vsize >= 0 && (vsize % vgran || vo + vsize > (int64_t)g_old.vsize)) return false;
    return true;
}
static inline bool post_map_accept_inside(int hoffset, int voffset, int hsize, int vsize, int ret)
{
    return ret != UBASE_ERR_NONE || (g_plane >= 0 && spec_window_ok(g_plane, hoffset, voffset, hsize, vsize));
}
static inline bool post_map_accepts_valid(int hoffset, int voffset, int hsize, int vsize, int ret)
{
    return !(g_plane >= 0 && spec_window_ok(g_plane, hoffset, voffset, hsize, vsize)) || ret == UBASE_ERR_NONE;
}
/* pointer == address of the window's first pixel (for a request on plane g_pi: every plane, by the ghost index) */
static inline bool post_map_pointer(int hoffset, int voffset, int hsize, int vsize, uint8_t **buffer_p, int ret)
{
    if (buffer_p == NULL) return true;
    if (ret != UBASE_ERR_NONE) return *buffer_p == g_out_old;
    if (g_plane != g_pi || !spec_window_ok(g_pi, hoffset, voffset, hsize, vsize)) return true;
    /* window_ok: the normalised offsets are in [0, size], so the int forms below equal spec_ho / spec_vo */
    int hmo = spec_ho32(hoffset) / g_mgr.macropixel, vo = spec_vo32(voffset);
    return *buffer_p == g_oldbuf[g_pi] +
               (g_old.vprepend + vo) / g_mgr.planes[g_pi]->vsub * g_oldstride[g_pi] +
               (g_old.hmprepend + hmo) / g_mgr.planes[g_pi]->hsub * g_mgr.planes[g_pi]->macropixel_size;
}
/* Containment in the allocation: from window_ok (window inside [0,hmsize] x [0,vsize]) and INV_pic (visible window inside
 * the allocated extent G_HM x G_V) the first line + lines <= allocated lines and first column + columns <= allocated
 * columns, and from there octet containment inside lines*stride, is lemma_pic_window.smt2 (mathematical integers). */
static inline bool post_map_frame(void) { return spec_unchanged() && spec_inv_pic(); }

/* check_size / check_skip: a multiple of plane p's granularity (p = ghost plane index: every plane) */
static inline bool spec_gran_size_p(int p, int h, int v)
{
    size_t hgran = g_mgr.macropixel * g_mgr.planes[p]->hsub, vgran = g_mgr.planes[p]->vsub;
    return !(h % hgran || v % vgran);
}
static inline bool spec_gran_skip_p(int p, int h, int v)
{
    if (h < 0) h = -h;
    if (v < 0) v = -v;
    size_t hgran = g_mgr.macropixel * g_mgr.planes[p]->hsub, vgran = g_mgr.planes[p]->vsub;
    return !(h % hgran || v % vgran);
}
#ifdef FULL_EQ
static inline bool spec_gran_size(int h, int v)
{
    for (int p = 0; p < MAXPL; p++) { if (p >= g_mgr.nb_planes) break; if (!spec_gran_size_p(p, h, v)) return false; }
    return true;
}
static inline bool spec_gran_skip(int h, int v)
{
    for (int p = 0; p < MAXPL; p++) { if (p >= g_mgr.nb_planes) break; if (!spec_gran_skip_p(p, h, v)) return false; }
    return true;
}
#endif
/* resize */
static inline int spec_nh32(int hskip, int new_hsize) { return new_hsize == -1 ? (int)(g_old.hmsize * g_mgr.macropixel - hskip) : new_hsize; }
static inline int spec_nv32(int vskip, int new_vsize) { return new_vsize == -1 ? (int)(g_old.vsize - vskip) : new_vsize; }
/* what an accepted resize guarantees, granularity stated for plane p (ghost index) */
static inline bool spec_resize_nochange(int hskip, int vskip, int new_hsize, int new_vsize)
{
    int64_t nh = new_hsize == -1 ? spec_H() - hskip : (int64_t)new_hsize;
    int64_t nv = new_vsize == -1 ? (int64_t)g_old.vsize - vskip : (int64_t)new_vsize;
    return hskip == 0 && vskip == 0 && nh == spec_H() && nv == (int64_t)g_old.vsize;
}
static inline bool spec_resize_fits(int hskip, int vskip, int new_hsize, int new_vsize)
{
    int64_t mp = g_mgr.macropixel;
    int64_t nh = new_hsize == -1 ? spec_H() - hskip : (int64_t)new_hsize;
    int64_t nv = new_vsize == -1 ? (int64_t)g_old.vsize - vskip : (int64_t)new_vsize;
    if (nh <= 0 || nv <= 0 || nh > INT32_MAX || nv > INT32_MAX) return false;
    int64_t hmskip = hskip / mp, nhm = nh / mp;
    /* the new window [prepend + skip, prepend + skip + size) inside the allocated extent [0, G) */
    if ((int64_t)g_old.hmprepend + hmskip < 0 || (int64_t)g_old.hmprepend + hmskip + nhm > (int64_t)G_HM) return false;
    if ((int64_t)g_old.vprepend + vskip < 0 || (int64_t)g_old.vprepend + vskip + nv > (int64_t)G_V) return false;
    return true;
}
static inline bool spec_resize_ok_p(int p, int hskip, int vskip, int new_hsize, int new_vsize)
{
    if (spec_resize_nochange(hskip, vskip, new_hsize, new_vsize)) return true;
    return spec_resize_fits(hskip, vskip, new_hsize, new_vsize) &&
           spec_gran_size_p(p, spec_nh32(hskip, new_hsize), spec_nv32(vskip, new_vsize)) && spec_gran_skip_p(p, hskip, vskip);
}
#ifdef FULL_EQ
static inline bool spec_resize_ok_all(int hskip, int vskip, int new_hsize, int new_vsize)
{
    if (spec_resize_nochange(hskip, vskip, new_hsize, new_vsize)) return true;
    return spec_resize_fits(hskip, vskip, new_hsize, new_vsize) &&
           spec_gran_size(spec_nh32(hskip, new_hsize), spec_nv32(vskip, new_vsize)) && spec_gran_skip(hskip, vskip);
}
#endif
static inline bool post_resize_accept_inside(int hskip, int vskip, int new_hsize, int new_vsize, int ret)
{
    return ret != UBASE_ERR_NONE || spec_resize_ok_p(g_pi, hskip, vskip, new_hsize, new_vsize);
}
static inline bool post_resize_state(int hskip, int vskip, int new_hsize, int new_vsize, int ret)
{
    if (ret != UBASE_ERR_NONE) return spec_unchanged();
    if (!spec_resize_ok_p(g_pi, hskip, vskip, new_hsize, new_vsize)) return true;
    int64_t mp = g_mgr.macropixel;
    int64_t nh = new_hsize == -1 ? spec_H() - hskip : (int64_t)new_hsize;
    int64_t nv = new_vsize == -1 ? (int64_t)g_old.vsize - vskip : (int64_t)new_vsize;
    return g_common->hmprepend == (size_t)((int64_t)g_old.hmprepend + hskip / mp) &&
           g_common->vprepend == (size_t)((int64_t)g_old.vprepend + vskip) &&
           g_common->hmsize == (size_t)(nh / mp) && g_common->vsize == (size_t)nv &&
           g_common->planes[g_pi].buffer == g_oldbuf[g_pi] && g_common->planes[g_pi].stride == g_oldstride[g_pi];
}
static inline bool post_resize_inv(int ret) { return spec_inv_pic(); }
/* accepted ==> positive and a multiple of plane g_pi's granularity (every plane, by the ghost index) */
static inline bool post_check_size(int hsize, int vsize, int ret)
{
    return ret != UBASE_ERR_NONE || (hsize > 0 && vsize > 0 && spec_gran_size_p(g_pi, hsize, vsize));
}
static inline bool post_check_skip(int hskip, int vskip, int ret)
{
    return ret != UBASE_ERR_NONE || spec_gran_skip_p(g_pi, hskip, vskip);
}
#ifdef FULL_EQ
/* (no converse for resize: the code legitimately refuses some requests that would fit, e.g. moving the whole window into
 * the left margin: new size smaller than the extension) */
/* a request that fits is not refused; thorough tier: all planes at once */
static inline bool post_resize_accepts_valid(int hskip, int vskip, int new_hsize, int new_vsize, int ret)
{
    return !spec_resize_ok_all(hskip, vskip, new_hsize, new_vsize) || ret == UBASE_ERR_NONE;
}
static inline bool post_check_size_valid(int hsize, int vsize, int ret)
{
    return !(hsize > 0 && vsize > 0 && spec_gran_size(hsize, vsize)) || ret == UBASE_ERR_NONE;
}
static inline bool post_check_skip_valid(int hskip, int vskip, int ret)
{
    return !spec_gran_skip(hskip, vskip) || ret == UBASE_ERR_NONE;
}
#define FULL(x) x
#else
#define FULL(x)
#endif

/* argument range of resize: the code adds margin + skip + size in int; sizes and skips up to 2^30 in magnitude cannot
 * overflow with the margins the harness builds (documented precondition, see unit.json) */
#define PRE_RESIZE_ARGS(hs, vs, nh, nv) ((nh) >= -1 && (nv) >= -1 && (nh) <= (1 << 30) && (nv) <= (1 << 30) && \
    (hs) >= -(1 << 30) && (hs) <= (1 << 30) && (vs) >= -(1 << 30) && (vs) <= (1 << 30))

/* ---- contracts ----------------------------------------------------------------------- */
#ifndef VNATIVE
int ubuf_pic_common_plane_map(struct ubuf *ubuf, const char *chroma, int hoffset, int voffset, int hsize, int vsize,
                              uint8_t **buffer_p)
__CPROVER_requires(pre_pic(ubuf))
__CPROVER_requires(chroma != NULL && g_plane == spec_plane_of(chroma[0]))
__CPROVER_requires(buffer_p == NULL || *buffer_p == g_out_old)
__CPROVER_assigns(buffer_p != NULL: *buffer_p)
__CPROVER_ensures(post_map_accept_inside(hoffset, voffset, hsize, vsize, __CPROVER_return_value))
__CPROVER_ensures(post_map_accepts_valid(hoffset, voffset, hsize, vsize, __CPROVER_return_value))
__CPROVER_ensures(post_map_pointer(hoffset, voffset, hsize, vsize, buffer_p, __CPROVER_return_value))
__CPROVER_ensures(post_map_frame())
;
int ubuf_pic_common_resize(struct ubuf *ubuf, int hskip, int vskip, int new_hsize, int new_vsize)
__CPROVER_requires(pre_pic(ubuf) && PRE_RESIZE_ARGS(hskip, vskip, new_hsize, new_vsize))
__CPROVER_assigns(g_common->hmprepend, g_common->hmappend, g_common->hmsize,
                  g_common->vprepend, g_common->vappend, g_common->vsize)
__CPROVER_ensures(post_resize_accept_inside(hskip, vskip, new_hsize, new_vsize, __CPROVER_return_value))
__CPROVER_ensures(post_resize_state(hskip, vskip, new_hsize, new_vsize, __CPROVER_return_value))
__CPROVER_ensures(post_resize_inv(__CPROVER_return_value))
;
int ubuf_pic_common_check_size(struct ubuf_mgr *mgr, int hsize, int vsize)
__CPROVER_requires(mgr == &g_mgr.mgr && spec_mgr_ok() && g_pi >= 0 && g_pi < g_mgr.nb_planes)
__CPROVER_assigns()
__CPROVER_ensures(post_check_size(hsize, vsize, __CPROVER_return_value))
FULL(__CPROVER_ensures(post_check_size_valid(hsize, vsize, __CPROVER_return_value)))
;
int ubuf_pic_common_check_skip(struct ubuf_mgr *mgr, int hskip, int vskip)
__CPROVER_requires(mgr == &g_mgr.mgr && spec_mgr_ok() && hskip > INT32_MIN && vskip > INT32_MIN && g_pi >= 0 && g_pi < g_mgr.nb_planes)
__CPROVER_assigns()
__CPROVER_ensures(post_check_skip(hskip, vskip, __CPROVER_return_value))
FULL(__CPROVER_ensures(post_check_skip_valid(hskip, vskip, __CPROVER_return_value)))
;
#endif

/* ---- entries ---------------------------------------------------------------------------- */
struct vplane { uint8_t hsub, vsub, mps; };
static void build_mgr(uint8_t macropixel, uint8_t nb_planes, const uint8_t *hsub, const uint8_t *vsub, const uint8_t *mps)
{
    g_mgr.macropixel = macropixel; g_mgr.nb_planes = nb_planes; g_mgr.planes = g_mplanes;
    for (int p = 0; p < MAXPL; p++) {
        g_chroma[p][0] = p == 0 ? 'y' : p == 1 ? 'u' : p == 2 ? 'v' : 'a';
        g_chroma[p][1] = 0; g_chroma[p][2] = 0; g_chroma[p][3] = 0;
        g_mp[p].chroma = g_chroma[p]; g_mp[p].hsub = hsub[p]; g_mp[p].vsub = vsub[p]; g_mp[p].macropixel_size = mps[p];
        g_mplanes[p] = &g_mp[p];
    }
}
#define BUILD_MGR() \
    VIN(uint8_t, macropixel); VIN(uint8_t, nb_planes); \
    VIN_ARR(uint8_t, hsub, MAXPL); VIN_ARR(uint8_t, vsub, MAXPL); VIN_ARR(uint8_t, mps, MAXPL); \
    build_mgr(macropixel, nb_planes, hsub, vsub, mps); \
    VASSUME(H_spec_mgr_ok())
/* case split: one run per (requested plane PI, macropixel MPV, hsub HSV, vsub VSV) with these four compile-time
 * constants, so that every division of the function under contract is by a constant; the other planes' parameters stay
 * symbolic. The driver enumerates all 4*6*3*3 cases: their union is the whole parameter space of spec_mgr_ok(). */
#ifdef MPV
#define CASE_SPLIT() macropixel = MPV; pi = PIV; g_pi = pi; hsub[PIV] = HSV; vsub[PIV] = VSV; \
    build_mgr(macropixel, nb_planes, hsub, vsub, mps); VASSUME(H_spec_mgr_ok() && pi < nb_planes)
#else
#define CASE_SPLIT()
#endif
#define BUILD_PIC() \
    BUILD_MGR(); \
    VIN(int, pi); VASSUME(pi >= 0 && pi < nb_planes); g_pi = pi; \
    CASE_SPLIT(); \
    VIN_ARR(uint32_t, win, 6); VIN_ARR(uint32_t, stride, MAXPL); \
    for (int k_ = 0; k_ < 6; k_++) VASSUME(win[k_] <= MAXDIM); \
    g_common->ubuf.mgr = &g_mgr.mgr; \
    g_common->hmprepend = win[0]; g_common->hmsize = win[1]; g_common->hmappend = win[2]; \
    g_common->vprepend = win[3]; g_common->vsize = win[4]; g_common->vappend = win[5]; \
    G_HM = (size_t)win[0] + win[1] + win[2]; G_V = (size_t)win[3] + win[4] + win[5]; \
    g_old.hmprepend = win[0]; g_old.hmsize = win[1]; g_old.hmappend = win[2]; \
    g_old.vprepend = win[3]; g_old.vsize = win[4]; g_old.vappend = win[5]; \
    for (int p_ = 0; p_ < MAXPL; p_++) { \
        VASSUME(stride[p_] <= (1u << 17)); \
        size_t lines_ = G_V + 1; \
        uint8_t *b_ = malloc(lines_ * stride[p_] + 1); VASSUME(b_ != NULL); \
        g_common->planes[p_].buffer = b_; g_common->planes[p_].stride = stride[p_]; \
        g_oldbuf[p_] = b_; g_oldstride[p_] = stride[p_]; \
    }

void h_pic_plane_map(void)
{
    BUILD_PIC();
    VIN(int, hoffset); VIN(int, voffset); VIN(int, hsize); VIN(int, vsize); VIN(int, chroma_sel); VIN(bool, want_ptr);
    char chroma[4] = { 0, 0, 0, 0 };
#ifdef MPV
    /* the requested chroma is plane PIV's (a constant, so that the plane lookup is resolved before the solver runs);
     * unknown chromas are the group pic_plane_map_unknown */
    chroma_sel = PIV;
#endif
#ifdef UNKNOWN_CHROMA
    chroma_sel = -1;
#endif
    chroma[0] = chroma_sel == 0 ? 'y' : chroma_sel == 1 ? 'u' : chroma_sel == 2 ? 'v' : chroma_sel == 3 ? 'a' : 'x';
    g_plane = (chroma_sel >= 0 && chroma_sel < nb_planes) ? chroma_sel : -1;
    uint8_t *out = NULL; uint8_t **buffer_p = want_ptr ? &out : NULL;
    g_out_old = out;
    struct ubuf *ubuf = &g_common->ubuf;
    VPRE(pre_pic(ubuf));
    int ret = ubuf_pic_common_plane_map(ubuf, chroma, hoffset, voffset, hsize, vsize, buffer_p);
    VPOST(post_map_accept_inside(hoffset, voffset, hsize, vsize, ret));
    VPOST(post_map_accepts_valid(hoffset, voffset, hsize, vsize, ret));
    VPOST(post_map_pointer(hoffset, voffset, hsize, vsize, buffer_p, ret));
    VPOST(post_map_frame());
    VCANARY();
}

void h_pic_resize(void)
{
    BUILD_PIC();
    VIN(int, hskip); VIN(int, vskip); VIN(int, new_hsize); VIN(int, new_vsize);
    struct ubuf *ubuf = &g_common->ubuf;
    VPRE(pre_pic(ubuf) && PRE_RESIZE_ARGS(hskip, vskip, new_hsize, new_vsize));
    int ret = ubuf_pic_common_resize(ubuf, hskip, vskip, new_hsize, new_vsize);
    VPOST(post_resize_accept_inside(hskip, vskip, new_hsize, new_vsize, ret));
    VPOST(post_resize_state(hskip, vskip, new_hsize, new_vsize, ret));
    VPOST(post_resize_inv(ret));
    VCANARY();
}

void h_pic_check_size(void)
{
    BUILD_MGR();
    VIN(int, hsize); VIN(int, vsize); VIN(int, pi); VASSUME(pi >= 0 && pi < nb_planes); g_pi = pi;
    int ret = ubuf_pic_common_check_size(&g_mgr.mgr, hsize, vsize);
    VPOST(post_check_size(hsize, vsize, ret));
    FULL(VPOST(post_check_size_valid(hsize, vsize, ret));)
    VCANARY();
}

void h_pic_check_skip(void)
{
    BUILD_MGR();
    VIN(int, hskip); VIN(int, vskip); VIN(int, pi); VASSUME(pi >= 0 && pi < nb_planes); g_pi = pi;
    VPRE(hskip > INT32_MIN && vskip > INT32_MIN);
    int ret = ubuf_pic_common_check_skip(&g_mgr.mgr, hskip, vskip);
    VPOST(post_check_skip(hskip, vskip, ret));
    FULL(VPOST(post_check_skip_valid(hskip, vskip, ret));)
    VCANARY();
}

#ifdef VENTRY
VMAIN(VENTRY)
#endif
