; From the window facts proved by CBMC to containment in the plane's allocation (mathematical integers).
; INV_pic: prepend + size + append == G (per axis).   window_ok: 0 <= o, o + n <= size (macropixels / lines).
; sub in {1,2,4}. Address = buffer + L*stride + C*mps with L = (vprepend+vo) div vsub, C = (hmprepend+hmo) div hsub.
; Allocation of the plane: lines_alloc = ceil(G_V / vsub) lines of `stride` octets, with stride >= ceil(G_HM / hsub) * mps.
; Claim: the last octet of the window's last line lies below lines_alloc * stride, and each line's span stays within its row.
(set-logic ALL)
(declare-const vsub Int)(declare-const hsub Int)(declare-const mps Int)(declare-const stride Int)
(declare-const vprepend Int)(declare-const vsize Int)(declare-const vappend Int)(declare-const GV Int)
(declare-const hmprepend Int)(declare-const hmsize Int)(declare-const hmappend Int)(declare-const GHM Int)
(declare-const vo Int)(declare-const vn Int)(declare-const hmo Int)(declare-const hmn Int)
(define-fun cdiv ((a Int) (b Int)) Int (div (+ a (- b 1)) b))
(assert (or (= vsub 1) (= vsub 2) (= vsub 4)))
(assert (or (= hsub 1) (= hsub 2) (= hsub 4)))
(assert (and (>= mps 1) (>= vprepend 0) (>= vsize 0) (>= vappend 0) (>= hmprepend 0) (>= hmsize 0) (>= hmappend 0)))
(assert (and (= GV (+ vprepend vsize vappend)) (= GHM (+ hmprepend hmsize hmappend))))
(assert (and (>= vo 0) (>= vn 1) (<= (+ vo vn) vsize) (>= hmo 0) (>= hmn 1) (<= (+ hmo hmn) hmsize)))
(assert (>= stride (* (cdiv GHM hsub) mps)))
(define-fun L () Int (div (+ vprepend vo) vsub))
(define-fun C () Int (div (+ hmprepend hmo) hsub))
(define-fun lastL () Int (div (+ vprepend vo vn (- 1)) vsub))          ; line of the window's last visible line
(define-fun endC () Int (cdiv (+ hmprepend hmo hmn) hsub))             ; one past the last (subsampled) column
(assert (not (and (<= (* endC mps) stride)                              ; a row of the window stays inside its line
                  (< lastL (cdiv GV vsub))                              ; the last line is an allocated line
                  (<= (+ (* lastL stride) (* endC mps)) (* (cdiv GV vsub) stride)))))
(check-sat)
