/* Contract unit: lib/upipe/uref_std.c (included whole) with the REAL structure pool (include/upipe/upool.h over ulifo.h /
 * uring.h, executed sequentially) and lib/upipe/udict_inline.c manager life cycle   (property C01: "once ... all
 * application handles are released, nothing obtained through the framework remains allocated and every manager is back
 * to the single reference held by its creator")
 *
 * Lemma (pool depths 0, 1, 2 at compile time): allocate the manager, take two urefs, free one, take a third (recycled from
 * the pool when it has room), drop the creator's reference on the manager while urefs are live — the manager must
 * survive —, free the remaining urefs: then the manager is destroyed exactly once, its reference on the dictionary
 * manager is given back (the dictionary manager is back to its creator's single reference) and NO heap object remains
 * (CBMC's memory-leak obligation on malloc/free, which also gives 'freed exactly once' and 'not used afterwards').
 * The sequential behaviour of the lock-free pool is what is checked here; its behaviour under concurrency is C07.
 */
#ifdef STUB_POOL
/* sequential contract of the structure pool (depth 0: nothing is kept): the real pool is checked in the upool_seq entries below */
#include <upipe/upool.h>
static inline void stub_upool_init(struct upool *upool, struct urefcount *refcount, uint16_t length, void *extra,
                                   upool_alloc_cb alloc_cb, upool_free_cb free_cb) { upool->refcount = refcount; upool->alloc_cb = alloc_cb; upool->free_cb = free_cb; }
static inline void *stub_upool_alloc_internal(struct upool *upool) { void *o = upool->alloc_cb(upool); if (o != NULL) upool_use(upool); return o; }
static inline void stub_upool_free(struct upool *upool, void *obj) { upool->free_cb(upool, obj); upool_release(upool); }
static inline void stub_upool_vacuum(struct upool *upool) { }
static inline void stub_upool_clean(struct upool *upool) { }
#define upool_init stub_upool_init
#define upool_alloc_internal stub_upool_alloc_internal
#define upool_free stub_upool_free
#define upool_vacuum stub_upool_vacuum
#define upool_clean stub_upool_clean
#endif
#include "lib/upipe/uref_std.c"
#include "vspec.h"
#ifndef DEPTH
#define DEPTH 1
#endif
static struct urefcount g_drc; static int g_ddead;
static void stub_ddead(struct urefcount *rc) { g_ddead++; }
static struct udict_mgr g_dmgr;
void h_uref_std(void)
{
    g_drc.refcount = 1; g_drc.cb = stub_ddead; g_ddead = 0; g_dmgr.refcount = &g_drc;
    struct uref_mgr *mgr = uref_std_mgr_alloc(DEPTH, &g_dmgr, 0);
    VASSUME(mgr != NULL);
    VPOST((int)g_drc.refcount == 2 && mgr->udict_mgr == &g_dmgr && urefcount_single(mgr->refcount));
    struct uref *u1 = uref_alloc(mgr), *u2 = uref_alloc(mgr);
    VASSUME(u1 != NULL && u2 != NULL);
    VPOST(u1 != u2 && u1->mgr == mgr && u2->mgr == mgr && u1->udict == NULL && u1->ubuf == NULL && u2->udict == NULL && u2->ubuf == NULL);
    VPOST(!urefcount_single(mgr->refcount));                       /* live urefs keep their manager */
    uref_free(u1);
    struct uref *u3 = uref_alloc(mgr);
    VASSUME(u3 != NULL);
    VPOST(u3 != u2 && u3->mgr == mgr && u3->udict == NULL && u3->ubuf == NULL);      /* a recycled structure is re-initialised */
    uref_mgr_release(mgr);                                         /* the creator lets go first */
    VPOST((int)g_drc.refcount == 2 && g_ddead == 0);               /* ... the manager survives: urefs are still live */
    VPOST(u2->mgr == mgr && u3->mgr == mgr);
    uref_free(u2);
    VPOST((int)g_drc.refcount == 2);
    uref_free(u3);
    VPOST((int)g_drc.refcount == 1 && g_ddead == 0);               /* destroyed with the last uref: the dictionary manager is back to its creator's reference */
    VCANARY();
}

/* ---- the real structure pool, executed sequentially (upool.h over ulifo.h / uring.h) ------------------------------------
 * objects come from a counting allocator stub; script: a, b = alloc; free(a); c = alloc; free(b); free(c); clean.
 *   depth 0      : nothing is kept: free hands the object to free_cb at once, c is a fresh object;
 *   depth >= 1   : free(a) keeps a, c is a again (no allocation), and clean gives every kept object to free_cb;
 *   always       : each object handed out by alloc_cb reaches free_cb exactly once by the end, never while it is handed
 *                  out to the user; the pool's owner reference count returns to its initial value; the lock-free retry
 *                  loops never retry (unwinding assertion at 1 iteration). */
#ifdef POOL_SEQ
#define NOBJ 3
static struct { int dummy; } g_objs[NOBJ]; static int g_handed, g_freed_cnt[NOBJ], g_bad_free;
static struct urefcount g_prc; static int g_pdead;
static void stub_pdead(struct urefcount *rc) { g_pdead++; }
static void *stub_pool_alloc(struct upool *p) { if (g_handed >= NOBJ) return NULL; return &g_objs[g_handed++]; }
static void stub_pool_free(struct upool *p, void *o)
{
    if (o == &g_objs[0]) g_freed_cnt[0]++; else if (o == &g_objs[1]) g_freed_cnt[1]++; else if (o == &g_objs[2]) g_freed_cnt[2]++; else g_bad_free++;
}
static struct { struct upool pool; uint8_t extra[upool_sizeof(2) + 8]; } g_pl;
void h_upool_seq(void)
{
    g_prc.refcount = 1; g_prc.cb = stub_pdead; g_pdead = 0; g_handed = 0; g_bad_free = 0;
    for (int k = 0; k < NOBJ; k++) g_freed_cnt[k] = 0;
    upool_init(&g_pl.pool, &g_prc, DEPTH, g_pl.extra, stub_pool_alloc, stub_pool_free);
    void *a = upool_alloc(&g_pl.pool, void *), *b = upool_alloc(&g_pl.pool, void *);
    VPOST(a == &g_objs[0] && b == &g_objs[1] && (int)g_prc.refcount == 3);
    upool_free(&g_pl.pool, a);
    VPOST((int)g_prc.refcount == 2 && g_freed_cnt[0] == (DEPTH == 0 ? 1 : 0) && g_freed_cnt[1] == 0);
    void *c = upool_alloc(&g_pl.pool, void *);
    VPOST(DEPTH == 0 ? (c == &g_objs[2] && g_handed == 3) : (c == a && g_handed == 2));
    VPOST((int)g_prc.refcount == 3);
    upool_free(&g_pl.pool, b); upool_free(&g_pl.pool, c);
    VPOST((int)g_prc.refcount == 1 && g_pdead == 0);
    /* what the pool keeps is bounded by its depth */
    int kept = g_handed - (g_freed_cnt[0] + g_freed_cnt[1] + g_freed_cnt[2]);
    VPOST(kept >= 0 && kept <= DEPTH);
    upool_clean(&g_pl.pool);
    VPOST(g_bad_free == 0 && g_freed_cnt[0] == 1 && g_freed_cnt[1] == 1 && g_freed_cnt[2] == (g_handed == 3 ? 1 : 0));
    VCANARY();
}
#endif
#ifdef VENTRY
VMAIN(VENTRY)
#endif
