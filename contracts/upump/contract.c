/* Contract unit: lib/upipe/upump_common.c (included whole), include/upipe/upump_blocker.h  (property C13)
 *
 * Ghost state: g_active = "the watcher is active in the underlying loop", maintained by the mock
 * back end (upump_real_start/stop/restart reached through the manager's function pointers);
 * g_bad is raised by a start while active or a stop while inactive.
 * INV_pump:  g_active == (started && no blocker)  &&  !g_bad  &&  the blocker list is exactly the
 * expected sequence of nodes, each pointing back at this pump.
 * Shape: NBLK in {0,1,2,3} blockers, one run per value (the property's own bound on blockers).
 * The blocker pool (upool_alloc_internal / upool_free) is replaced by a contract (assumed).
 */
#include "lib/upipe/upump_common.c"
#include "vspec.h"

#ifndef NBLK
#define NBLK 1
#endif
#define MAXB 4

/* ---- objects built by the entries ---------------------------------------- */
static struct upump_common_mgr g_mgr;
static struct upump_common g_pump;
static struct upump_blocker_common g_b0, g_b1, g_b2, g_b3;
static struct urefcount g_rc;

/* ---- ghost state ----------------------------------------------------------- */
static bool g_active, g_bad;
static int g_nstart, g_nstop, g_nrestart;      /* calls to the back end */
static bool g_last_status;                      /* status passed to the last back-end call */
static struct uchain *g_seq[MAXB + 1];          /* expected list content at entry, in order */
static int g_n;                                 /* its length */
static bool g_started_old, g_status_old, g_active_old;
static int g_cbcount[MAXB];                     /* blocker callback invocations, per node */
static int g_cb_unknown;                        /* callback on something that is not a listed node */
static int g_pool_free; static void *g_pool_last;   /* pool ghost */
static int g_pump_cb, g_pump_cb_refs;           /* pump callback: calls, refcount seen inside */
static uint32_t g_refs_old; static int g_rc_dead;
static int g_status_out_old;

/* ---- mock back end (the far side of the manager interface) ------------------ */
static void stub_real_start(struct upump *upump, bool status)
{
    if (g_active) g_bad = true;
    g_active = true; g_nstart++; g_last_status = status;
}
static void stub_real_stop(struct upump *upump, bool status)
{
    if (!g_active) g_bad = true;
    g_active = false; g_nstop++; g_last_status = status;
}
static void stub_real_restart(struct upump *upump, bool status)
{
    g_active = true; g_nrestart++; g_last_status = status;
}
static void stub_pump_cb(struct upump *upump)
{
    g_pump_cb++;
    g_pump_cb_refs = upump->refcount ? (int)uatomic_load(&upump->refcount->refcount) : -1;
}
static void stub_rc_cb(struct urefcount *rc) { g_rc_dead++; }
static bool nondet_blocker_cb_frees(void);
/* a blocker callback as pipes write it: may release the blocker (helper_input does) */
static void stub_blocker_cb(struct upump_blocker *blocker)
{
    struct upump_blocker_common *c = upump_blocker_common_from_upump_blocker(blocker);
    if (c == &g_b0) g_cbcount[0]++;
    else if (c == &g_b1) g_cbcount[1]++;
    else if (c == &g_b2) g_cbcount[2]++;
    else if (c == &g_b3) g_cbcount[3]++;
    else g_cb_unknown++;
#ifdef VNATIVE
    extern int vn_cb_frees; if (vn_cb_frees)
#else
    if (nondet_blocker_cb_frees())
#endif
        upump_common_blocker_free(blocker);
}

/* spec-side equivalents of the UBASE_FROM_TO accessors (macros: the contract side must not
 * share a call tree with the code under verification) */
#define S_COMMON_FROM_UCHAIN(u) container_of(u, struct upump_blocker_common, uchain)
#define S_COMMON_FROM_BLOCKER(b) container_of(b, struct upump_blocker_common, blocker)
/* ---- spec ------------------------------------------------------------------- */
/* the blocker list is exactly seq[0..n) in order */
static inline bool spec_list_is(struct uchain *const *seq, int n)
{
    struct uchain *h = &g_pump.blockers, *c = h;
    for (int i = 0; i < MAXB + 1; i++) {
        if (i >= n) break;
        struct uchain *nx = c->next;
        if (nx != seq[i] || nx->prev != c) return false;
        c = nx;
    }
    return c->next == h && h->prev == c;
}
static inline bool spec_backrefs(struct uchain *const *seq, int n)
{
    for (int i = 0; i < MAXB + 1; i++) {
        if (i >= n) break;
        if (S_COMMON_FROM_UCHAIN(seq[i])->blocker.upump != &g_pump.upump) return false;
    }
    return true;
}
static inline bool spec_inv(struct uchain *const *seq, int n)
{
    return g_active == (g_pump.started && n == 0) && !g_bad && spec_list_is(seq, n) &&
           g_pump.upump.mgr == &g_mgr.mgr;
}
/* entry state: INV + ghost bindings */
static inline bool pre_pump(struct upump *upump)
{
    return upump == &g_pump.upump && g_n >= 0 && g_n <= MAXB && spec_inv(g_seq, g_n) &&
           spec_backrefs(g_seq, g_n) &&
           g_started_old == g_pump.started && g_status_old == g_pump.status && g_active_old == g_active &&
           g_nstart == 0 && g_nstop == 0 && g_nrestart == 0;
}
static inline bool spec_list_kept(void) { return spec_list_is(g_seq, g_n); }

/* start: active iff now started and not blocked; requests while blocked are remembered */
static inline bool post_start(struct upump *upump)
{
    return spec_inv(g_seq, g_n) && g_pump.started && g_pump.status == g_status_old &&
           g_nstop == 0 && g_nrestart == 0 && g_nstart == ((!g_started_old && g_n == 0) ? 1 : 0) &&
           (g_nstart == 0 || g_last_status == g_status_old);
}
static inline bool post_stop(struct upump *upump)
{
    return spec_inv(g_seq, g_n) && !g_pump.started && g_pump.status == g_status_old &&
           g_nstart == 0 && g_nrestart == 0 && g_nstop == ((g_started_old && g_n == 0) ? 1 : 0);
}
static inline bool post_restart(struct upump *upump)
{
    return spec_inv(g_seq, g_n) && g_pump.started && g_pump.status == g_status_old &&
           g_nstart == 0 && g_nstop == 0 && g_nrestart == (g_n == 0 ? 1 : 0);
}
static inline bool post_get_status(struct upump *upump, int *status_p)
{
    return *status_p == (g_status_old ? 1 : 0) && spec_inv(g_seq, g_n) &&
           g_pump.started == g_started_old && g_pump.status == g_status_old &&
           (g_nstart == 0 && g_nstop == 0 && g_nrestart == 0);
}
static inline bool post_set_status(struct upump *upump, int status)
{
    return spec_inv(g_seq, g_n) && g_pump.started == g_started_old && g_pump.status == (status != 0) &&
           /* an active watcher is re-armed with the new status, a suspended one is left alone */
           (g_active_old ? (g_nstop == 1 && g_nstart == 1 && g_last_status == (status != 0))
                         : (g_nstop == 0 && g_nstart == 0)) && g_nrestart == 0;
}
static inline bool post_init(struct upump *upump)
{
    return !g_pump.started && g_pump.status && spec_list_is(g_seq, 0) && (g_nstart == 0 && g_nstop == 0 && g_nrestart == 0);
}
/* allocating the first blocker suspends the pump */
static inline bool post_blocker_alloc(struct upump *upump, struct upump_blocker *ret)
{
    if (ret == NULL)
        return spec_inv(g_seq, g_n) && (g_nstart == 0 && g_nstop == 0 && g_nrestart == 0) &&
               g_pump.started == g_started_old && g_pump.status == g_status_old;
    struct uchain *seq[MAXB + 1];
    for (int i = 0; i < MAXB; i++) seq[i] = g_seq[i];
    if (g_n > MAXB - 1) return false;
    seq[g_n] = &S_COMMON_FROM_BLOCKER(ret)->uchain;
    return spec_inv(seq, g_n + 1) && !g_active && g_pump.started == g_started_old &&
           g_pump.status == g_status_old && g_nstart == 0 && g_nrestart == 0 &&
           g_nstop == ((g_started_old && g_n == 0) ? 1 : 0);
}
/* upump_blocker_alloc (upump_blocker.h) additionally initialises the blocker */
static inline bool post_blocker_alloc_api(struct upump *upump, upump_blocker_cb cb, void *opaque,
                                          struct upump_blocker *ret)
{
    if (!post_blocker_alloc(upump, ret)) return false;
    return ret == NULL || (ret->upump == upump && ret->cb == cb && ret->opaque == opaque);
}
static int g_k;     /* index in g_seq of the blocker being freed */
static inline bool pre_blocker_free(struct upump_blocker *blocker)
{
    return pre_pump(&g_pump.upump) && g_k >= 0 && g_k < g_n &&
           &S_COMMON_FROM_BLOCKER(blocker)->uchain == g_seq[g_k] &&
           blocker->upump == &g_pump.upump && g_pool_free == 0;
}
/* releasing the last blocker resumes the pump; the others stay, in order */
static inline bool post_blocker_free(struct upump_blocker *blocker)
{
    struct uchain *seq[MAXB + 1];
    int n = 0;
    for (int i = 0; i < MAXB; i++) { if (i >= g_n) break; if (i != g_k) seq[n++] = g_seq[i]; }
    return spec_inv(seq, n) && g_pump.started == g_started_old && g_pump.status == g_status_old &&
           g_nstop == 0 && g_nrestart == 0 && g_nstart == ((g_started_old && n == 0) ? 1 : 0) &&
           g_pool_free == 1 && g_pool_last == S_COMMON_FROM_BLOCKER(blocker);
}
/* dispatch: the callback runs exactly once, with the owner's refcount held */
static inline bool pre_dispatch(struct upump *upump)
{
    return pre_pump(upump) && upump->cb == stub_pump_cb && g_pump_cb == 0 && g_rc_dead == 0 &&
           (upump->refcount == NULL ||
            (upump->refcount == &g_rc && g_rc.cb == stub_rc_cb && g_rc.refcount >= 1 &&
             g_rc.refcount < UINT32_MAX && g_refs_old == g_rc.refcount));
}
static inline bool post_dispatch(struct upump *upump)
{
    return g_pump_cb == 1 && g_rc_dead == 0 &&
           (upump->refcount == NULL ? g_pump_cb_refs == -1
                                    : (g_pump_cb_refs == (int)(g_refs_old + 1) && g_rc.refcount == g_refs_old)) &&
           spec_inv(g_seq, g_n);
}
/* clean (pump being freed, already stopped): every outstanding blocker is notified exactly once */
static inline bool pre_clean(struct upump *upump)
{
    if (!(pre_pump(upump) && !g_pump.started && g_cb_unknown == 0 && g_rc_dead == 0 && g_pool_free == 0 &&
          (upump->refcount == NULL ||
           (upump->refcount == &g_rc && g_rc.cb == stub_rc_cb && g_rc.refcount >= 1 &&
            g_rc.refcount < UINT32_MAX && g_refs_old == g_rc.refcount))))
        return false;
    for (int i = 0; i < MAXB; i++) {
        if (g_cbcount[i] != 0) return false;
        if (i < g_n && S_COMMON_FROM_UCHAIN(g_seq[i])->blocker.cb != stub_blocker_cb) return false;
    }
    return true;
}
static inline bool post_clean(struct upump *upump)
{
    for (int i = 0; i < MAXB; i++)
        if (g_cbcount[i] != (i < g_n ? 1 : 0)) return false;
    return g_cb_unknown == 0 && !g_active && !g_bad && !g_pump.started &&
           (g_nstart == 0 && g_nstop == 0 && g_nrestart == 0) && g_rc_dead == 0 &&
           (upump->refcount == NULL || g_rc.refcount == g_refs_old);
}

/* ---- contracts -------------------------------------------------------------- */
#ifndef VNATIVE
#define FRAME_PUMP __CPROVER_object_whole(&g_pump), __CPROVER_object_whole(&g_b0), __CPROVER_object_whole(&g_b1), \
                   __CPROVER_object_whole(&g_b2), __CPROVER_object_whole(&g_b3), \
                   g_active, g_bad, g_nstart, g_nstop, g_nrestart, g_last_status
void upump_common_start(struct upump *upump)
__CPROVER_requires(pre_pump(upump)) __CPROVER_assigns(g_pump.started, g_active, g_bad, g_nstart, g_nstop, g_nrestart, g_last_status)
__CPROVER_ensures(post_start(upump));
void upump_common_stop(struct upump *upump)
__CPROVER_requires(pre_pump(upump)) __CPROVER_assigns(g_pump.started, g_active, g_bad, g_nstart, g_nstop, g_nrestart, g_last_status)
__CPROVER_ensures(post_stop(upump));
void upump_common_restart(struct upump *upump)
__CPROVER_requires(pre_pump(upump)) __CPROVER_assigns(g_pump.started, g_active, g_bad, g_nstart, g_nstop, g_nrestart, g_last_status)
__CPROVER_ensures(post_restart(upump));
void upump_common_get_status(struct upump *upump, int *status_p)
__CPROVER_requires(pre_pump(upump)) __CPROVER_assigns(*status_p)
__CPROVER_ensures(post_get_status(upump, status_p));
void upump_common_set_status(struct upump *upump, int status)
__CPROVER_requires(pre_pump(upump)) __CPROVER_assigns(g_pump.started, g_pump.status, g_active, g_bad, g_nstart, g_nstop, g_nrestart, g_last_status)
__CPROVER_ensures(post_set_status(upump, status));
void upump_common_init(struct upump *upump)
__CPROVER_requires(upump == &g_pump.upump && g_nstart == 0 && g_nstop == 0 && g_nrestart == 0)
__CPROVER_assigns(g_pump.started, g_pump.status, g_pump.blockers)
__CPROVER_ensures(post_init(upump));
struct upump_blocker *upump_common_blocker_alloc(struct upump *upump)
__CPROVER_requires(pre_pump(upump) && g_n < MAXB) __CPROVER_assigns(FRAME_PUMP)
__CPROVER_ensures(post_blocker_alloc(upump, __CPROVER_return_value));
void upump_common_blocker_free(struct upump_blocker *blocker)
__CPROVER_requires(pre_blocker_free(blocker)) __CPROVER_assigns(FRAME_PUMP, g_pool_free, g_pool_last)
__CPROVER_ensures(post_blocker_free(blocker));
void upump_common_dispatch(struct upump *upump)
__CPROVER_requires(pre_dispatch(upump)) __CPROVER_assigns(g_pump_cb, g_pump_cb_refs, g_rc.refcount)
__CPROVER_ensures(post_dispatch(upump));
void upump_common_clean(struct upump *upump)
__CPROVER_requires(pre_clean(upump))
__CPROVER_assigns(FRAME_PUMP, g_pool_free, g_pool_last, g_rc.refcount, g_cb_unknown, __CPROVER_object_whole(g_cbcount))
__CPROVER_ensures(post_clean(upump));

/* assumed contract of the blocker pool (upool.h; the lock-free pool itself is C07/C01 territory) */
static inline void *upool_alloc_internal(struct upool *upool)
__CPROVER_assigns()
__CPROVER_ensures(__CPROVER_return_value == NULL ||
                  __CPROVER_is_fresh(__CPROVER_return_value, sizeof(struct upump_blocker_common)));
static inline void upool_free(struct upool *upool, void *obj)
__CPROVER_assigns(g_pool_free, g_pool_last)
__CPROVER_ensures(g_pool_free == __CPROVER_old(g_pool_free) + 1 && g_pool_last == obj);
#endif

/* ---- entries ---------------------------------------------------------------- */
#ifdef VNATIVE
int vn_cb_frees;
/* native replay: the real pool with depth 0; its element call-backs play the pool contract's part */
static void *vn_pool_alloc(struct upool *upool) { return malloc(sizeof(struct upump_blocker_common)); }
static void vn_pool_free(struct upool *upool, void *obj) { g_pool_free++; g_pool_last = obj; }
static char vn_pool_extra[64];
#endif

static void reset_ghosts(void)
{
    g_nstart = g_nstop = g_nrestart = 0; g_last_status = false; g_cb_unknown = 0; g_pool_free = 0; g_pool_last = NULL;
    g_pump_cb = 0; g_pump_cb_refs = 0; g_rc_dead = 0;
    for (int i = 0; i < MAXB; i++) g_cbcount[i] = 0;
}
static void build_pump(bool started, bool status)
{
    g_mgr.upump_real_start = stub_real_start;
    g_mgr.upump_real_stop = stub_real_stop;
    g_mgr.upump_real_restart = stub_real_restart;
    g_pump.upump.mgr = &g_mgr.mgr;
    g_pump.upump.cb = stub_pump_cb;
#ifdef VNATIVE
    upool_init(&g_mgr.upump_blocker_pool, NULL, 0, vn_pool_extra, vn_pool_alloc, vn_pool_free);
#endif
    g_pump.started = started; g_pump.status = status;
    struct upump_blocker_common *nodes[MAXB] = { &g_b0, &g_b1, &g_b2, &g_b3 };
    struct uchain *h = &g_pump.blockers, *c = h;
    for (int i = 0; i < NBLK; i++) {
        nodes[i]->blocker.upump = &g_pump.upump;
        nodes[i]->blocker.cb = stub_blocker_cb;
        c->next = &nodes[i]->uchain; nodes[i]->uchain.prev = c; c = &nodes[i]->uchain;
        g_seq[i] = &nodes[i]->uchain;
    }
    c->next = h; h->prev = c;
    g_n = NBLK;
    g_active = started && NBLK == 0; g_bad = false;
    g_started_old = started; g_status_old = status; g_active_old = g_active;
    reset_ghosts();
}
#define BUILD() VIN(bool, started); VIN(bool, status0); build_pump(started, status0); struct upump *upump = &g_pump.upump
#define BUILD_RC() VIN(bool, has_rc); VIN(uint32_t, refs); VASSUME(refs >= 1 && refs < UINT32_MAX); \
    g_rc.refcount = refs; g_rc.cb = stub_rc_cb; g_refs_old = refs; upump->refcount = has_rc ? &g_rc : NULL

void h_start(void)   { BUILD(); VPRE(pre_pump(upump)); upump_common_start(upump);   VPOST(post_start(upump));   VCANARY(); }
void h_stop(void)    { BUILD(); VPRE(pre_pump(upump)); upump_common_stop(upump);    VPOST(post_stop(upump));    VCANARY(); }
void h_restart(void) { BUILD(); VPRE(pre_pump(upump)); upump_common_restart(upump); VPOST(post_restart(upump)); VCANARY(); }
void h_get_status(void)
{
    BUILD(); VIN(int, out); int *status_p = &out; VPRE(pre_pump(upump));
    upump_common_get_status(upump, status_p); VPOST(post_get_status(upump, status_p)); VCANARY();
}
void h_set_status(void)
{
    BUILD(); VIN(int, newstatus); int status = newstatus; VPRE(pre_pump(upump));
    upump_common_set_status(upump, status); VPOST(post_set_status(upump, status)); VCANARY();
}
void h_init(void)
{
    VIN(bool, started); VIN(bool, status);
    g_mgr.upump_real_start = stub_real_start; g_mgr.upump_real_stop = stub_real_stop;
    g_mgr.upump_real_restart = stub_real_restart; g_pump.upump.mgr = &g_mgr.mgr;
    g_pump.started = started; g_pump.status = status;        /* garbage before init */
    reset_ghosts();
    struct upump *upump = &g_pump.upump;
    upump_common_init(upump); VPOST(post_init(upump)); VCANARY();
}
void h_blocker_alloc(void)
{
    BUILD(); VPRE(pre_pump(upump));
    struct upump_blocker *ret = upump_common_blocker_alloc(upump);
    VPOST(post_blocker_alloc(upump, ret)); VCANARY();
}
void h_blocker_free(void)
{
    BUILD(); VIN(int, k); VASSUME(k >= 0 && k < NBLK); g_k = k;
    struct upump_blocker_common *nodes[MAXB] = { &g_b0, &g_b1, &g_b2, &g_b3 };
    struct upump_blocker *blocker = &nodes[k]->blocker;
    VPRE(pre_blocker_free(blocker));
    upump_common_blocker_free(blocker);
    VPOST(post_blocker_free(blocker)); VCANARY();
}
void h_dispatch(void)
{
    BUILD(); BUILD_RC(); VPRE(pre_dispatch(upump));
    upump_common_dispatch(upump); VPOST(post_dispatch(upump)); VCANARY();
}
void h_clean(void)
{
    BUILD(); BUILD_RC(); VPRE(pre_clean(upump));
#ifdef VNATIVE
    { VIN(bool, blocker_cb_frees); vn_cb_frees = blocker_cb_frees; }
#endif
    upump_common_clean(upump); VPOST(post_clean(upump)); VCANARY();
}

#ifdef VENTRY
VMAIN(VENTRY)
#endif
