/* Contract unit: lib/upipe-modules/upipe_dup.c (included whole): upipe_dup_input   (property C05: "a duplicating split
 * delivers every input to every one of its outputs")
 *
 * The pipe and NSUB output subpipes are built directly in the state their allocators leave (outputs connected, flow
 * definition accepted); the main output of the dup pipe itself is connected or not (-DWITH_MAIN). For every output
 * subpipe (ghost index) exactly one buffer arrives per input and it is a copy of the input (same scalar fields), the
 * main output receives the input itself when connected, nothing is lost or doubled (live-uref accounting: every copy is
 * delivered — the output stubs free what they get — or freed), also when a duplication fails half-way (fatal event).
 */
#include "vpipeflow_pre.h"
#include "lib/upipe-modules/upipe_dup.c"
#include "vspec.h"
#include "vstub_pipe.h"
/* dictionary comparison as its contract: equal iff same content id (the real udict_cmp is under contract in C10) */
int stub_udict_cmp(struct udict *a, struct udict *b)
{
    return container_of(a, struct vs_udict, udict)->def_id == container_of(b, struct vs_udict, udict)->def_id ? 0 : 1;
}
#ifndef NSUB
#define NSUB 2
#endif
#ifndef WITH_MAIN
#define WITH_MAIN 0
#endif
static struct upipe g_out[4]; static struct urefcount g_orc[4]; static struct upipe_mgr g_omgr;
static int g_got[4]; static uint64_t g_got_priv[4]; static struct uref *g_got_ptr[4]; static int g_order[4], g_seq;
static void stub_rc_cb(struct urefcount *rc) { }
static void stub_fan_input(struct upipe *upipe, struct uref *uref, struct upump **upump_p)
{
    int k = upipe == &g_out[0] ? 0 : upipe == &g_out[1] ? 1 : upipe == &g_out[2] ? 2 : 3;
    g_got[k]++; g_got_priv[k] = uref->priv; g_got_ptr[k] = uref; g_order[k] = ++g_seq;
    uref_free(uref);
}
static int stub_fan_control(struct upipe *upipe, int command, va_list args) { return UBASE_ERR_NONE; }
static struct upipe_dup g_dup; static struct upipe_dup_output g_sub[3];
#ifndef LAZY
#define LAZY (-1)
#endif
/* -DLAZY=k: output subpipe k has no sink yet; the application connects it when the subpipe asks (need_output event),
 * as uprobe_selflow / uprobe_*_output style probes do: that output must still get its copy */
static int stub_probe_lazy(struct uprobe *uprobe, struct upipe *upipe, int event, va_list args)
{
    if (event == UPROBE_NEED_OUTPUT && LAZY >= 0 && upipe == &g_sub[LAZY >= 0 ? LAZY : 0].upipe && g_sub[LAZY >= 0 ? LAZY : 0].output == NULL) {
        upipe_dup_output_set_output(upipe, &g_out[LAZY >= 0 ? LAZY : 0]);
        return UBASE_ERR_NONE;
    }
    return stub_probe_throw(uprobe, upipe, event, args);
}

void h_dup_input(void)
{
    vs_reset_all(); gs_probe.uprobe_throw = stub_probe_lazy;
    VPIPE_INIT_MGR(g_omgr, 0x66616e30, NULL, stub_fan_input, stub_fan_control);
    struct upipe *upipe = &g_dup.upipe;
    upipe_dup_mgr.signature = UPIPE_DUP_SIGNATURE; upipe_dup_mgr.upipe_input = upipe_dup_input;
    upipe->mgr = &upipe_dup_mgr; upipe->uprobe = &gs_probe; upipe->refcount = &g_dup.urefcount; uchain_init(&upipe->uchain);
    g_dup.urefcount.refcount = 1; g_dup.urefcount.cb = stub_rc_cb; g_dup.urefcount_real.refcount = 1; g_dup.urefcount_real.cb = stub_rc_cb;
    ulist_init(&g_dup.outputs); ulist_init(&g_dup.requests);
    g_dup.sub_mgr.signature = UPIPE_DUP_OUTPUT_SIGNATURE; g_dup.sub_mgr.refcount = NULL;
    for (int k = 0; k < 4; k++) {
        g_got[k] = 0; g_got_ptr[k] = NULL; g_order[k] = 0;
        g_out[k].mgr = &g_omgr; g_out[k].refcount = &g_orc[k]; g_orc[k].refcount = 2; g_orc[k].cb = stub_rc_cb; uchain_init(&g_out[k].uchain); g_out[k].uprobe = NULL;
    }
    g_seq = 0;
    g_dup.flow_def = vs_make_uref(true, 9, 0); VASSUME(g_dup.flow_def != NULL);
    g_dup.output = WITH_MAIN ? &g_out[3] : NULL; g_dup.output_state = WITH_MAIN ? UPIPE_HELPER_OUTPUT_VALID : UPIPE_HELPER_OUTPUT_NONE;
    for (int k = 0; k < NSUB; k++) {
        struct upipe_dup_output *s = &g_sub[k];
        s->upipe.mgr = &g_dup.sub_mgr; s->upipe.uprobe = &gs_probe; s->upipe.refcount = &s->urefcount; uchain_init(&s->upipe.uchain);
        s->urefcount.refcount = 1; s->urefcount.cb = stub_rc_cb;
        s->output = &g_out[k]; s->flow_def = vs_make_uref(true, 9, 0); VASSUME(s->flow_def != NULL);
        s->output_state = UPIPE_HELPER_OUTPUT_VALID; ulist_init(&s->request_list);
        if (k == LAZY) { s->output = NULL; s->output_state = UPIPE_HELPER_OUTPUT_NONE; }
        uchain_init(&s->uchain); ulist_add(&g_dup.outputs, &s->uchain);
    }
    VIN(uint64_t, marker); VIN(uint8_t, in_dict);
    struct uref *uref = vs_make_uref((in_dict & 1) != 0, 77, marker); VASSUME(uref != NULL);
    uint64_t in_priv = uref->priv; int live_old = gs_uref_live;
    upipe_dup_input(upipe, uref, NULL);
    VIN(uint8_t, gk); VASSUME(gk < NSUB);
    VPOST(gs_ev_fatal > 0 || (g_got[gk] == 1 && g_got_priv[gk] == in_priv));         /* every output, exactly once, a copy */
    VPOST(g_got[gk] <= 1);
    VPOST(gs_ev_fatal > 0 || (WITH_MAIN ? (g_got[3] == 1 && g_got_ptr[3] == uref) : g_got[3] == 0));    /* the main output gets the buffer itself */
    VPOST(gs_uref_live == live_old - 1);                                              /* nothing lost, nothing kept */
    VPOST(gs_ev_fatal > 0 || NSUB < 2 || g_order[0] < g_order[1]);                      /* outputs are served in the order they were added */
    VCANARY();
}

/* ---- set_flow_def on the dup pipe (C04: "a downstream pipe always receives and accepts the current flow definition ... again
 * after every change of flow definition"): an accepted set_flow_def stores (a copy of) the new definition on the pipe and on
 * EVERY output subpipe — whatever the stub dictionary answers about individual attributes — and an output whose definition
 * changed is no longer considered to have accepted it (state leaves VALID), so that it is sent again before the next buffer */
void h_dup_set_flow_def(void)
{
    vs_reset_all();
    VPIPE_INIT_MGR(g_omgr, 0x66616e30, NULL, stub_fan_input, stub_fan_control);
    struct upipe *upipe = &g_dup.upipe;
    upipe_dup_mgr.signature = UPIPE_DUP_SIGNATURE; upipe_dup_mgr.upipe_input = upipe_dup_input;
    upipe->mgr = &upipe_dup_mgr; upipe->uprobe = &gs_probe; upipe->refcount = &g_dup.urefcount; uchain_init(&upipe->uchain);
    g_dup.urefcount.refcount = 1; g_dup.urefcount.cb = stub_rc_cb; g_dup.urefcount_real.refcount = 1; g_dup.urefcount_real.cb = stub_rc_cb;
    ulist_init(&g_dup.outputs); ulist_init(&g_dup.requests);
    g_dup.sub_mgr.signature = UPIPE_DUP_OUTPUT_SIGNATURE; g_dup.sub_mgr.refcount = NULL;
    VIN(uint16_t, old_id); VIN(uint16_t, new_id); VIN(uint8_t, had_def); VASSUME(old_id < 1000 && new_id < 1000);
    for (int k = 0; k < 4; k++) { g_got[k] = 0; g_out[k].mgr = &g_omgr; g_out[k].refcount = &g_orc[k]; g_orc[k].refcount = 2; g_orc[k].cb = stub_rc_cb; uchain_init(&g_out[k].uchain); g_out[k].uprobe = NULL; }
    g_dup.flow_def = NULL; g_dup.output = NULL; g_dup.output_state = UPIPE_HELPER_OUTPUT_NONE;
    if (had_def & 1) { g_dup.flow_def = vs_make_uref(true, old_id, 0); VASSUME(g_dup.flow_def != NULL); }
    for (int k = 0; k < NSUB; k++) {
        struct upipe_dup_output *s = &g_sub[k];
        s->upipe.mgr = &g_dup.sub_mgr; s->upipe.uprobe = &gs_probe; s->upipe.refcount = &s->urefcount; uchain_init(&s->upipe.uchain);
        s->urefcount.refcount = 1; s->urefcount.cb = stub_rc_cb;
        s->output = &g_out[k]; s->flow_def = NULL; ulist_init(&s->request_list);
        if (had_def & 1) { s->flow_def = vs_make_uref(true, old_id, 0); VASSUME(s->flow_def != NULL); }
        s->output_state = (had_def & 1) ? UPIPE_HELPER_OUTPUT_VALID : UPIPE_HELPER_OUTPUT_NONE;       /* the sink has accepted the old definition */
        uchain_init(&s->uchain); ulist_add(&g_dup.outputs, &s->uchain);
    }
    struct uref *nd = vs_make_uref(true, new_id, 0); VASSUME(nd != NULL);
    int ret = upipe_dup_set_flow_def(upipe, nd);
    VIN(uint8_t, gk); VASSUME(gk < NSUB);
    if (ret == UBASE_ERR_NONE) {
        VPOST(g_dup.flow_def != NULL && g_dup.flow_def != nd && vs_def_id(g_dup.flow_def) == new_id);
        VPOST(g_sub[gk].flow_def != NULL && g_sub[gk].flow_def != nd && vs_def_id(g_sub[gk].flow_def) == new_id);      /* every output holds the new definition */
        VPOST(g_sub[gk].output_state != UPIPE_HELPER_OUTPUT_VALID || ((had_def & 1) && old_id == new_id));           /* a changed definition has to be sent again */
    }
    VPOST(g_got[gk] == 0);                                                                                              /* set_flow_def sends no buffer */
    VCANARY();
}
#ifdef VENTRY
VMAIN(VENTRY)
#endif
