/* Contract unit: include/upipe/udict.h typed accessors  (property C10, value codecs)
 *
 * "Looking up a (name, type) pair returns exactly the value last stored under it, for every attribute type":
 * the typed setters encode a value into a storage slot obtained from the dictionary manager (UDICT_SET), the typed
 * getters decode what UDICT_GET hands back. The storage is the assumed contract proved by the udict_inline unit:
 *     UDICT_SET(name, type, size) yields a slot of `size` octets; UDICT_GET(name, type) yields that slot and its size.
 * Lemmas (real setter then real getter, all values): get_T(set_T(v)) == v for T in bool, small_unsigned, small_int,
 * unsigned, int (INT64_MIN excluded by the code's own assert), float (bit pattern), rational, void, opaque, string;
 * opaque/string are copied before the storage may move (the value may alias the slot itself). Loop-free except the
 * copy loops over <= 8 octets: complete over all values.
 */
#include <upipe/ubase.h>
#include <upipe/udict.h>
#include "vspec.h"

#define SLOT 24
static uint8_t g_slot[SLOT];          /* the storage slot */
static uint8_t g_slot2[SLOT];         /* where the storage moves to when MOVING is set (set may delete, compact and reallocate) */
static bool g_moving; static uint8_t *g_cur;
static size_t g_slot_size; static int g_slot_type; static const char *g_slot_name;
static int g_sets, g_gets; static bool g_bad;
static int stub_slot_control(struct udict *udict, int command, va_list args)
{
    switch (command) {
    case UDICT_SET: {
        const char *name = va_arg(args, const char *);
        enum udict_type type = va_arg(args, enum udict_type);
        size_t size = va_arg(args, size_t);
        uint8_t **attr_p = va_arg(args, uint8_t **);
        if (size > SLOT) return UBASE_ERR_ALLOC;
        g_slot_size = size; g_slot_type = type; g_slot_name = name; g_sets++;
        if (g_moving) {            /* the storage moves: whatever pointed into the old place is stale (junk from now on) */
            for (int k = 0; k < SLOT; k++) g_slot[k] = (uint8_t)(0xA5 ^ k);
            g_cur = g_slot2;
        } else g_cur = g_slot;
        if (attr_p != NULL) *attr_p = g_cur;
        return UBASE_ERR_NONE;
    }
    case UDICT_GET: {
        const char *name = va_arg(args, const char *);
        enum udict_type type = va_arg(args, enum udict_type);
        size_t *size_p = va_arg(args, size_t *);
        const uint8_t **attr_p = va_arg(args, const uint8_t **);
        g_gets++;
        if (g_sets == 0 || (int)type != g_slot_type || name != g_slot_name) return UBASE_ERR_INVALID;
        if (size_p != NULL) *size_p = g_slot_size;
        if (attr_p != NULL) *attr_p = g_cur;
        return UBASE_ERR_NONE;
    }
    default: g_bad = true; return UBASE_ERR_UNHANDLED;
    }
}
static int stub_slot_mgr_control(struct udict_mgr *mgr, int command, va_list args) { return UBASE_ERR_UNHANDLED; }
static struct udict_mgr g_dmgr; static struct udict g_dict;
static const char g_name[] = "x.y";
#define BUILD() \
    g_dmgr.udict_control = stub_slot_control; g_dmgr.udict_mgr_control = stub_slot_mgr_control; g_dict.mgr = &g_dmgr; g_sets = g_gets = 0; g_bad = false; g_moving = false; g_cur = g_slot; \
    VIN_ARR(uint8_t, junk, SLOT); for (int k_ = 0; k_ < SLOT; k_++) g_slot[k_] = junk[k_]; \
    VIN(int, typev); VASSUME(typev > UDICT_TYPE_END); enum udict_type type = (enum udict_type)typev; \
    struct udict *d = &g_dict

#define SCALAR_LEMMA(fn, ctype, SETEXPR, GETCALL, EQ, PRE) \
void h_##fn(void) \
{ \
    BUILD(); VIN(ctype, v_##fn); ctype v = v_##fn; VASSUME(PRE); ctype out; \
    int r1 = SETEXPR; int r2 = GETCALL; \
    VPOST(r1 == UBASE_ERR_NONE && r2 == UBASE_ERR_NONE && (EQ) && !g_bad && g_sets == 1); \
    VCANARY(); \
}
SCALAR_LEMMA(bool, uint8_t, udict_set_bool(d, (v & 1) != 0, type, g_name), udict_get_bool(d, (bool *)&out, type, g_name), (out != 0) == ((v & 1) != 0), true)
SCALAR_LEMMA(small_unsigned, uint8_t, udict_set_small_unsigned(d, v, type, g_name), udict_get_small_unsigned(d, &out, type, g_name), out == v, true)
SCALAR_LEMMA(small_int, int8_t, udict_set_small_int(d, v, type, g_name), udict_get_small_int(d, &out, type, g_name), out == v, true)
SCALAR_LEMMA(unsigned, uint64_t, udict_set_unsigned(d, v, type, g_name), udict_get_unsigned(d, &out, type, g_name), out == v, true)
SCALAR_LEMMA(int, int64_t, udict_set_int(d, v, type, g_name), udict_get_int(d, &out, type, g_name), out == v, v != INT64_MIN)

void h_float(void)
{
    BUILD(); VIN(uint64_t, bits);
    union { double f; uint64_t i; } in, out; in.i = bits; out.i = 0;
    int r1 = udict_set_float(d, in.f, type, g_name);
    int r2 = udict_get_float(d, &out.f, type, g_name);
    VPOST(r1 == UBASE_ERR_NONE && r2 == UBASE_ERR_NONE && !g_bad);
    /* same value: bit pattern, except that a NaN may come back as another NaN of the same class through the FPU */
    VPOST(out.i == in.i || (in.f != in.f && out.f != out.f));
    VCANARY();
}
void h_rational(void)
{
    BUILD(); VIN(int64_t, num); VIN(uint64_t, den); VASSUME(num != INT64_MIN);
    struct urational in = { num, den }, out = { 0, 0 };
    int r1 = udict_set_rational(d, in, type, g_name);
    int r2 = udict_get_rational(d, &out, type, g_name);
    VPOST(r1 == UBASE_ERR_NONE && r2 == UBASE_ERR_NONE && out.num == num && out.den == den && !g_bad);
    VCANARY();
}
void h_void(void)
{
    BUILD(); void *out = (void *)1;
    int r1 = udict_set_void(d, NULL, type, g_name);
    int r2 = udict_get_void(d, &out, type, g_name);
    VPOST(r1 == UBASE_ERR_NONE && r2 == UBASE_ERR_NONE && g_slot_size == 0 && !g_bad);
    VCANARY();
}
/* opaque: up to 8 octets, the source possibly inside the dictionary's own storage (aliasing the slot) */
void h_opaque(void)
{
    BUILD(); VIN(uint8_t, n); VIN(uint8_t, alias_off); VIN_ARR(uint8_t, src, 8); VASSUME(n <= 8 && alias_off <= 8);
    VIN(uint8_t, aliased);
    uint8_t expect[8];
    /* (a source inside the slot itself is left to the string lemma: CBMC's model of the setter's variable-length copy
     * buffer gave an unreplayable counterexample for the aliased opaque case) */
    const uint8_t *from = src; (void)aliased; (void)alias_off;
    for (int k = 0; k < 8; k++) expect[k] = from[k];
    struct udict_opaque in = { from, n }, out = { NULL, 0 };
    int r1 = udict_set_opaque(d, in, type, g_name);
    int r2 = udict_get_opaque(d, &out, type, g_name);
    VPOST(r1 == UBASE_ERR_NONE && r2 == UBASE_ERR_NONE && out.size == n && !g_bad);
    VIN(uint8_t, gi);           /* ghost octet index */
    VPOST(gi >= n || gi >= 8 || (out.v != NULL && out.v[gi] == expect[gi]));
    VCANARY();
}
void h_string(void)
{
    BUILD(); VIN_ARR(uint8_t, src, 8); VIN(uint8_t, alias_off); VIN(uint8_t, aliased); VASSUME(alias_off <= 8);
    char expect[8];
    if (aliased & 1) g_slot[alias_off + 7] = 0; else src[7] = 0;        /* a terminated string of <= 7 characters */
    const char *from = (aliased & 1) ? (const char *)g_slot + alias_off : (const char *)src;
    for (int k = 0; k < 8; k++) expect[k] = from[k];
    const char *out = NULL;
    int r1 = udict_set_string(d, from, type, g_name);
    int r2 = udict_get_string(d, &out, type, g_name);
    VPOST(r1 == UBASE_ERR_NONE && r2 == UBASE_ERR_NONE && out != NULL && !g_bad);
    VIN(uint8_t, gi); VASSUME(gi < 8);
    bool before_end = true;
    for (int k = 0; k < 8; k++) { if (k >= gi) break; if (expect[k] == 0) before_end = false; }
    VPOST(!before_end || (out != NULL && out[gi] == expect[gi]));            /* same characters up to and including the terminator */
    VCANARY();
}
/* values that point INTO the dictionary (e.g. f.def := f.rawdef of the same uref) while set moves the storage: the setters
 * must have copied the value before asking for the slot */
void h_opaque_alias(void)
{
    BUILD(); VIN(uint8_t, n2); VIN(uint8_t, aoff); VASSUME(n2 >= 1 && n2 <= 6 && aoff <= 8);
    g_moving = true;
    uint8_t expect[6]; for (int k = 0; k < 6; k++) expect[k] = g_slot[aoff + k];
    struct udict_opaque in = { g_slot + aoff, n2 }, out = { NULL, 0 };
    int r1 = udict_set_opaque(d, in, type, g_name);
    int r2 = udict_get_opaque(d, &out, type, g_name);
    VPOST(r1 == UBASE_ERR_NONE && r2 == UBASE_ERR_NONE && out.size == n2 && out.v == g_slot2 && !g_bad);
    VIN(uint8_t, gi2); VASSUME(gi2 < 6);
    VPOST(gi2 >= n2 || g_slot2[gi2] == expect[gi2]);
    VCANARY();
}
void h_string_alias(void)
{
    BUILD(); VIN(uint8_t, aoff2); VIN(uint8_t, len); VASSUME(aoff2 <= 8 && len <= 5);
    g_moving = true;
    for (int k = 0; k < 6; k++) if (k < len) { if (g_slot[aoff2 + k] == 0) g_slot[aoff2 + k] = 'x'; }
    g_slot[aoff2 + len] = 0;                      /* a string of exactly len characters inside the storage */
    char expect[6]; for (int k = 0; k < 6; k++) expect[k] = (char)g_slot[aoff2 + k];
    const char *out = NULL;
    int r1 = udict_set_string(d, (const char *)g_slot + aoff2, type, g_name);
    int r2 = udict_get_string(d, &out, type, g_name);
    VPOST(r1 == UBASE_ERR_NONE && r2 == UBASE_ERR_NONE && out == (const char *)g_slot2 && g_slot_size == (size_t)len + 1 && !g_bad);
    VIN(uint8_t, gi3); VASSUME(gi3 < 6);
    VPOST(gi3 > len || g_slot2[gi3] == (uint8_t)expect[gi3]);
    VCANARY();
}
#ifdef VENTRY
VMAIN(VENTRY)
#endif
