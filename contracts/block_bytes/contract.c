/* Contract unit: include/upipe/ubuf_block.h byte accessors over segmented blocks + include/upipe/ubuf_block_stream.h
 * (properties C03 "read through any access path ... equal those of a plain byte string", C16 masked match, C18 "the
 * block bit-stream reader over any segmentation of the same bytes")
 *
 * Same objects, manager stub, WF and builders as the block unit (included), but the areas hold real octets
 * (AREASZ = 4 each, windows inside them): the byte view  view(head)[i] = area_k[offset_k + (i - start_k)].
 * Contracts (assume/assert entries, chains of NSEG segments with symbolic windows incl. empty ones, full-range ints):
 *   extract(o, n, buf) : accepted ==> [o, o+n) inside the block and buf[j] == view[o+j] (ghost j); refused ==> range invalid;
 *   peek(o, n, buf)    : returns p with p[j] == view[o+j], or NULL only when the range is invalid;
 *   match(f, m, n)     : OK <==> n <= size and for all j < n (view[j] & m[j]) == f[j];
 *   compare / equal    : OK <==> sizes fit and view2[j] == view[o+j] for all j;
 *   scan(*off, w)      : OK ==> *off' is the first position >= *off holding w; refused ==> w does not occur from *off on;
 *   iovec_count / read : the runs concatenate to view[o, o+n) (count == number of runs), each run inside one segment;
 *   block stream       : ubuf_block_stream_init + get returns view[o], view[o+1], ... one octet per call until the end
 *                        (then INVALID), whatever the segmentation; fill/show/skip_bits returns the bits of those octets
 *                        MSB first, zero-filled with the overflow flag past the end.
 * Every operation leaves the block's view and WF untouched; no octet of any area is written (explicit frame).
 */
#define BLOCK_BYTES
#define FIXED_AREAS          /* segment k reads area k (sharing areas matters to the structure operations of the block unit, not to reading) */
#define AREASZ 4
#define MAXSZ 4
#include "../block/contract.c"
#include <upipe/ubuf_block_stream.h>
#include <sys/uio.h>

#ifndef VNATIVE
/* libc model (CBMC ships none for memchr): first occurrence of c in s[0, n) */
void *memchr(const void *s, int c, size_t n)
{
    const unsigned char *p = s;
    for (size_t k = 0; k < n; k++) if (p[k] == (unsigned char)c) return (void *)(p + k);
    return NULL;
}
#endif
static inline bool spec_byte(struct ubuf *h, size_t i, uint8_t *v)
{
    uint8_t *b; size_t off;
    if (!spec_loc(h, i, &b, &off) || off >= AREASZ) return false;
    *v = b[off]; return true;
}
static inline bool spec_quiet(struct ubuf *ubuf)       /* accessor left the block as it was */
{
    return spec_wf(ubuf) && spec_unchanged(ubuf, &g_o) && spec_areas_kept() && !g_stub_bad;
}
#define NB 12
void h_extract(void)
{
    BUILD_BLOCK(); VIN(int, offset); VIN(int, size); VIN(uint8_t, gj);
    uint8_t out[NB]; for (int k = 0; k < NB; k++) out[k] = 0xEE;
    /* the destination has room for the whole block (callers size it from the request) */
    VASSUME(size <= NB && size >= -1 && offset >= -2147483647);          /* documented arguments: a size, or -1 for 'to the end' */
    int ret = ubuf_block_extract(ubuf, offset, size, out);
    size_t o, n; bool valid = spec_range(g_o.total, offset, size, &o, &n);
    VPOST(spec_quiet(ubuf));
    /* (a request that designates no octet — size 0, or -1 from a position at or beyond the end — reads nothing and may be answered OK) */
    bool nothing = size == 0 || (size == -1 && (offset >= 0 ? (size_t)offset >= g_o.total : false));
    VPOST(ret != UBASE_ERR_NONE || valid || nothing);
    uint8_t v;
    VPOST(ret != UBASE_ERR_NONE || !valid || gj >= n || (spec_byte(ubuf, o + gj, &v) && out[gj] == v));
    VPOST(!valid || ret == UBASE_ERR_NONE);                     /* a range inside the block is never refused */
    VCANARY();
}
void h_peek(void)
{
    BUILD_BLOCK(); VIN(int, offset); VIN(int, size); VIN(uint8_t, gj);
    uint8_t out[NB]; for (int k = 0; k < NB; k++) out[k] = 0xEE;
    VASSUME(size <= NB && size >= -1 && offset >= -2147483647);
    const uint8_t *p = ubuf_block_peek(ubuf, offset, size, out);
    size_t o, n; bool valid = spec_range(g_o.total, offset, size, &o, &n);
    VPOST(spec_quiet(ubuf));
    uint8_t v;
    VPOST(p == NULL || !valid || n == 0 || gj >= n || (spec_byte(ubuf, o + gj, &v) && p[gj] == v));
    VPOST(p != NULL || !valid || n == 0);
    VCANARY();
}
void h_match(void)
{
    BUILD_BLOCK(); VIN_ARR(uint8_t, filter, NB); VIN_ARR(uint8_t, mask, NB); VIN(uint8_t, msize);
    VASSUME(msize <= NB);
    int ret = ubuf_block_match(ubuf, filter, mask, msize);
    bool expect = msize <= g_o.total;
    for (int j = 0; j < NB; j++) {
        if (j >= msize || !expect) break;
        uint8_t v; if (!spec_byte(ubuf, j, &v) || (v & mask[j]) != filter[j]) expect = false;
    }
    VPOST(spec_quiet(ubuf));
    VPOST((ret == UBASE_ERR_NONE) == expect);
    VCANARY();
}
void h_compare(void)
{
    BUILD_BLOCK(); BUILD_SECOND(); VIN(int, offset);
    VASSUME(offset >= 0);                /* (documented: offset in the first block) */
    int ret = ubuf_block_compare(ubuf, offset, other);
    bool expect = (size_t)offset + g_oi.total <= g_o.total;
    for (int j = 0; j < 2 * AREASZ; j++) {
        if ((size_t)j >= g_oi.total || !expect) break;
        uint8_t v1, v2; if (!spec_byte(ubuf, (size_t)offset + j, &v1) || !spec_byte(other, j, &v2) || v1 != v2) expect = false;
    }
    VPOST(spec_quiet(ubuf) && spec_wf(other) && spec_unchanged(other, &g_oi));
    VPOST((ret == UBASE_ERR_NONE) == expect);
    VCANARY();
}
void h_scan(void)
{
    BUILD_BLOCK(); VIN(uint8_t, start); VIN(uint8_t, word);
    size_t off = start;
    int ret = ubuf_block_scan(ubuf, &off, word);
    /* first occurrence at or after start */
    bool found = false; size_t first = 0;
    for (int j = 0; j < 3 * AREASZ + 1; j++) {
        if ((size_t)j >= g_o.total) break;
        uint8_t v; if ((size_t)j >= start && !found && spec_byte(ubuf, j, &v) && v == word) { found = true; first = j; }
    }
    VPOST(spec_quiet(ubuf));
    VPOST((ret == UBASE_ERR_NONE) == found);
    VPOST(!found || off == first);
    VCANARY();
}
void h_iovec(void)
{
    BUILD_BLOCK(); VIN(int, offset); VIN(int, size); VIN(uint8_t, gj);
    struct iovec iov[6]; for (int k = 0; k < 6; k++) { iov[k].iov_base = NULL; iov[k].iov_len = 0; }
    VASSUME(size >= -1 && offset >= -2147483647);
    int count = ubuf_block_iovec_count(ubuf, offset, size);
    size_t o, n; bool valid = spec_range(g_o.total, offset, size, &o, &n);
    VPOST(spec_quiet(ubuf));
    bool nothing = size == 0 || (size == -1 && (offset >= 0 ? (size_t)offset >= g_o.total : false));
    VPOST(count < 0 || valid || nothing);          /* (a request that designates no octet reads nothing, wherever it points) */
    VPOST(!valid || (count >= 0 && count <= NSEG + 2));
    if (count >= 0 && count <= 6 && valid) {
        int ret = ubuf_block_iovec_read(ubuf, offset, size, iov);
        VPOST(ret == UBASE_ERR_NONE && spec_quiet(ubuf));
        /* the runs concatenate to view[o, o+n): octet gj of the concatenation */
        size_t acc = 0; bool hit = false; uint8_t got = 0;
        for (int k = 0; k < 6; k++) {
            if (k >= count) break;
            if (!hit && gj >= acc && gj < acc + iov[k].iov_len) { got = ((uint8_t *)iov[k].iov_base)[gj - acc]; hit = true; }
            acc += iov[k].iov_len;
        }
        uint8_t v;
        VPOST(acc == n);
        VPOST(gj >= n || (hit && spec_byte(ubuf, o + gj, &v) && got == v));
    }
    VCANARY();
}
/* block stream reader over the chain: octet by octet, then bits */
void h_stream_get(void)
{
    BUILD_BLOCK(); VIN(uint8_t, start); VIN(uint8_t, steps);
    VASSUME(steps <= 3 * AREASZ + 1);
    struct ubuf_block_stream s;
    int ret = ubuf_block_stream_init(&s, ubuf, start);
    VPOST((ret == UBASE_ERR_NONE) == ((size_t)start < g_o.total));
    if (ret == UBASE_ERR_NONE) {
        bool ok = true; 
        for (int k = 0; k < 3 * AREASZ + 2; k++) {
            if (k > steps) break;
            uint8_t octet = 0xEE, v;
            int r = ubuf_block_stream_get(&s, &octet);
            bool inside = (size_t)start + k < g_o.total;
            if ((r == UBASE_ERR_NONE) != inside) ok = false;
            if (inside && (!spec_byte(ubuf, (size_t)start + k, &v) || octet != v)) ok = false;
            if (!inside) break;
        }
        VPOST(ok);
        VPOST(spec_wf(ubuf) && spec_unchanged(ubuf, &g_o) && spec_areas_kept());
    }
    VCANARY();
}
void h_stream_bits(void)
{
    BUILD_BLOCK(); VIN(uint8_t, start); VIN(uint8_t, skip); VIN(uint8_t, nb);
    VASSUME(nb >= 1 && nb <= 17 && skip <= 7);          /* up to 17 bits: the reader must then refill across at most three octets */
             /* bit phase inside an octet (whole octets are covered by `start`) */
    struct ubuf_block_stream s;
    int ret = ubuf_block_stream_init(&s, ubuf, start);
    if (ret == UBASE_ERR_NONE) {
        /* skip `skip` bits, then read nb bits: the bits [8*start + skip, +nb) of the view, MSB first, zero past the end */
        if (skip) { ubuf_block_stream_fill_bits(&s, skip); ubuf_block_stream_skip_bits(&s, skip); }
        ubuf_block_stream_fill_bits(&s, nb);
        uint32_t got = ubuf_block_stream_show_bits(&s, nb);
        uint32_t expect = 0; bool past = false;
        for (int k = 0; k < 17; k++) {
            if (k >= nb) break;
            size_t bit = (size_t)skip + k, byte = (size_t)start + bit / 8; uint8_t v = 0;
            if (byte < g_o.total) { if (!spec_byte(ubuf, byte, &v)) v = 0; } else past = true;
            expect = (expect << 1) | ((v >> (7 - bit % 8)) & 1);
        }
        VPOST(got == expect);
        VPOST(past == s.overflow);                       /* running out of data is flagged, and only then */
        VPOST(spec_wf(ubuf) && spec_unchanged(ubuf, &g_o) && spec_areas_kept());
    }
    VCANARY();
}

/* ---- operations that allocate: copy / merge / alloc_from_opaque, against an allocating manager stub -------------------
 * The stub hands out ONE fresh single-segment block over its own area (room for NB octets after a symbolic prepend) or
 * fails; what is written into it is what the contract talks about:
 *   copy(skip, n)  : accepted ==> the new block is one segment of n' octets (n' = n, or size - skip for -1) and
 *                    new[j] == view[j + skip] wherever 0 <= j + skip < size (ghost j); the source is untouched;
 *                    refused ==> the request is invalid or the allocation failed, and nothing stays allocated;
 *   merge          : accepted ==> *ubuf_p is that new block and the old chain was released once; refused ==> *ubuf_p and
 *                    the old chain are untouched;
 *   alloc_from_opaque(p, n) : new[j] == p[j];
 *   equal          : OK <==> same size and same octets. */
static struct ubuf_block g_cp; static uint8_t g_cparea[NB + 2]; static int g_cp_allocs, g_cp_req; static bool g_cp_given;
static struct ubuf *stub_cp_alloc(struct ubuf_mgr *mgr, uint32_t signature, va_list args)
{
    if (signature != UBUF_ALLOC_BLOCK) { g_stub_bad = true; return NULL; }
    int size = va_arg(args, int);
    g_cp_allocs++; g_cp_req = size;
    if (size < 0 || size > NB || g_cp_allocs > 1 || (VS_CHOICE(alloc_fails) & 1)) return NULL;
    g_cp.ubuf.mgr = mgr; uchain_init(&g_cp.ubuf.uchain);
    g_cp.offset = VS_CHOICE(alloc_prepend) & 1 ? 2 : 0; g_cp.size = size; g_cp.total_size = size; g_cp.buffer = g_cparea; g_cp.map = false;
    g_cp.next_ubuf = NULL; g_cp.cached_ubuf = &g_cp.ubuf; g_cp.cached_offset = 0; g_cp.cached_end_ubuf = NULL;
    g_fresh = &g_cp.ubuf; g_cp_given = true;
    return &g_cp.ubuf;
}
#define BUILD_ALLOC() g_bmgr.ubuf_alloc = stub_cp_alloc; g_cp_allocs = 0; g_cp_given = false; g_cp_req = 0; \
    for (int k_ = 0; k_ < NB + 2; k_++) g_cparea[k_] = 0xEE
static inline bool spec_fresh_wf(size_t n)
{
    return g_cp.next_ubuf == NULL && g_cp.size == n && g_cp.total_size == n && g_cp.buffer == g_cparea && g_cp.offset + n <= NB + 2 &&
           g_cp.cached_ubuf == &g_cp.ubuf && g_cp.cached_offset == 0;
}
void h_copy(void)
{
    BUILD_BLOCK(); BUILD_ALLOC(); VIN(int, cskip); VIN(int, new_size); VIN(uint8_t, gj);
    VASSUME(new_size >= -1 && cskip > -2147483647 - 1 + NB);            /* documented arguments: a size, or -1 for 'to the end' */
    struct ubuf *c = ubuf_block_copy(&g_bmgr, ubuf, cskip, new_size);
    long long total = (long long)g_o.total, ns = new_size == -1 ? total - cskip : new_size;
    bool valid = cskip <= total && ns >= 0 && ns >= -(long long)cskip;
    /* octets actually taken from the source; when there are none the code refuses (ubuf_block_write cannot map an empty range): tolerated, an error leaves everything unchanged */
    long long ext_a = ns - (cskip < 0 ? -(long long)cskip : 0), ext_b = total - (cskip > 0 ? cskip : 0), ext = ext_a < ext_b ? ext_a : ext_b;
    VPOST(spec_quiet(ubuf));                                           /* the source keeps size, content and structure */
    if (c != NULL) {
        VPOST(valid && c == &g_cp.ubuf && g_nfree == 0 && spec_fresh_wf((size_t)ns));
        long long src = (long long)gj + cskip; uint8_t v;
        VPOST(gj >= ns || src < 0 || src >= total || (spec_byte(ubuf, (size_t)src, &v) && g_cparea[g_cp.offset + gj] == v));
    } else {
        /* refused: invalid request, or the manager could not allocate; a block obtained on the way was given back */
        VPOST(!valid || g_cp_allocs >= 1);
        VPOST(!g_cp_given || (g_nfree == 1 && g_freed[0] == &g_cp.ubuf));
        VPOST(!valid || ns > NB || !g_cp_given || ext <= 0);                       /* a valid request fails only because the allocation did */
    }
    VPOST(g_cp_allocs <= 1 && (g_cp_allocs == 0 || !valid || (long long)g_cp_req == ns));
    VCANARY();
}
void h_merge(void)
{
    BUILD_BLOCK(); BUILD_ALLOC(); VIN(int, cskip); VIN(int, new_size); VIN(uint8_t, gj);
    VASSUME(new_size >= -1 && cskip > -2147483647 - 1 + NB);
    struct ubuf *p = ubuf;
    int ret = ubuf_block_merge(&g_bmgr, &p, cskip, new_size);
    long long total = (long long)g_o.total, ns = new_size == -1 ? total - cskip : new_size;
    bool valid = cskip <= total && ns >= 0 && ns >= -(long long)cskip;
    /* octets actually taken from the source; when there are none the code refuses (ubuf_block_write cannot map an empty range): tolerated, an error leaves everything unchanged */
    long long ext_a = ns - (cskip < 0 ? -(long long)cskip : 0), ext_b = total - (cskip > 0 ? cskip : 0), ext = ext_a < ext_b ? ext_a : ext_b;
    if (ret == UBASE_ERR_NONE) {
        VPOST(valid && p == &g_cp.ubuf && spec_fresh_wf((size_t)ns));
        VPOST(g_nfree == 1 && g_freed[0] == ubuf);                     /* the old chain is released, once (by its head) */
        long long src = (long long)gj + cskip;
        /* content is compared with the entry snapshot of the areas: the old block may be gone */
        uint8_t *b; size_t off;
        VPOST(gj >= ns || src < 0 || src >= total || (spec_oloc(&g_o, (size_t)src, &b, &off) && off < AREASZ &&
              g_cparea[g_cp.offset + gj] == g_oarea[b == g_areaA ? 0 : b == g_areaB ? 1 : b == g_areaC ? 2 : 3][off]));
    } else {
        VPOST(p == ubuf && spec_quiet(ubuf));
        VPOST(!g_cp_given || (g_nfree == 1 && g_freed[0] == &g_cp.ubuf));
        VPOST(g_cp_given || g_nfree == 0);
        VPOST(!valid || ns > NB || !g_cp_given || ext <= 0);
    }
    VCANARY();
}
void h_from_opaque(void)
{
    BUILD_BLOCK(); BUILD_ALLOC(); VIN_ARR(uint8_t, data, NB); VIN(uint8_t, n); VIN(uint8_t, gj);
    VASSUME(n <= NB);
    struct ubuf *c = ubuf_block_alloc_from_opaque(&g_bmgr, data, n);
    if (c != NULL) {
        VPOST(c == &g_cp.ubuf && g_nfree == 0 && spec_fresh_wf(n));
        VPOST(gj >= n || g_cparea[g_cp.offset + gj] == data[gj]);
    } else
        VPOST(!g_cp_given || (g_nfree == 1 && g_freed[0] == &g_cp.ubuf));
    VPOST(spec_quiet(ubuf));
    VCANARY();
}
void h_equal(void)
{
    BUILD_BLOCK(); BUILD_SECOND();
    int ret = ubuf_block_equal(ubuf, other);
    bool expect = g_oi.total == g_o.total;
    for (int j = 0; j < 2 * AREASZ; j++) {
        if ((size_t)j >= g_oi.total || !expect) break;
        uint8_t v1, v2; if (!spec_byte(ubuf, j, &v1) || !spec_byte(other, j, &v2) || v1 != v2) expect = false;
    }
    VPOST(spec_quiet(ubuf) && spec_wf(other) && spec_unchanged(other, &g_oi));
    VPOST((ret == UBASE_ERR_NONE) == expect);
    VCANARY();
}
/* find(off, NFIND octets): OK <==> the word occurs at or after *off; then *off is its first occurrence */
#ifndef NFIND
#define NFIND 2
#endif
void h_find(void)
{
    BUILD_BLOCK(); VIN(uint8_t, start); VIN_ARR(uint8_t, w, 3);
    size_t off = start;
    int ret = NFIND == 1 ? ubuf_block_find(ubuf, &off, 1, (unsigned)w[0]) :
              NFIND == 2 ? ubuf_block_find(ubuf, &off, 2, (unsigned)w[0], (unsigned)w[1]) :
                           ubuf_block_find(ubuf, &off, 3, (unsigned)w[0], (unsigned)w[1], (unsigned)w[2]);
    bool found = false; size_t first = 0;
    for (int j = 0; j < 3 * AREASZ + 1; j++) {
        if ((size_t)j + NFIND > g_o.total) break;
        if ((size_t)j < start || found) continue;
        bool all = true;
        for (int k = 0; k < NFIND; k++) { uint8_t v; if (!spec_byte(ubuf, (size_t)j + k, &v) || v != w[k]) all = false; }
        if (all) { found = true; first = j; }
    }
    VPOST(spec_quiet(ubuf));
    VPOST((ret == UBASE_ERR_NONE) == found);
    VPOST(!found || off == first);
    VCANARY();
}
#ifdef VENTRY
VMAIN(VENTRY)
#endif
