/* Contract unit: include/upipe/upipe_helper_input.h — the real macro text instantiated on a minimal structure that has
 * exactly the fields the macro names  (properties C05 "held buffers are delivered first and in arrival order",
 * "whatever is still held is freed"; C20 max_length getter/setter)
 *
 * View of the held buffers: the sequence of urefs on UREFS, NB_UREFS == its length (INV_in).
 *   hold(u)      : seq' = seq ++ [u]            pop : returns head, seq' = tail        unshift(u): seq' = [u] ++ seq
 *   output_input : the sink callback is offered the held buffers from the head, in order, each once, until it refuses
 *                  one; the refused buffer is put back at the HEAD, the rest stays behind it in order; returns true iff
 *                  everything was taken; NB_UREFS == what is left;
 *   clean_input  : every held buffer is freed exactly once, nothing is held afterwards;
 *   get/set_max_length: getter returns what the setter stored and changes nothing.
 * Shape: NHELD held buffers (0..3), one run each; the number of buffers the sink accepts is symbolic.
 */
#include <upipe/ubase.h>
#include <upipe/ulist.h>
#include <upipe/uref.h>
#include <upipe/upipe.h>
#include <upipe/upump.h>
#include <upipe/upump_blocker.h>
#include <upipe/upipe_helper_upipe.h>
#include <upipe/upipe_helper_input.h>
#include "vspec.h"

#ifndef NHELD
#define NHELD 2
#endif
#define MAXH 4
struct vin_pipe {
    struct uchain urefs; unsigned int nb_urefs; unsigned int max_urefs; struct uchain blockers;
    struct upipe upipe;
};
#define VIN_PIPE_SIGNATURE UBASE_FOURCC('v','i','n','p')
UPIPE_HELPER_UPIPE(vin_pipe, upipe, VIN_PIPE_SIGNATURE)
static bool stub_sink(struct upipe *upipe, struct uref *uref, struct upump **upump_p);
UPIPE_HELPER_INPUT(vin_pipe, urefs, nb_urefs, max_urefs, blockers, stub_sink)

static struct vin_pipe g_p; static struct upipe_mgr g_pmgr; static struct uprobe g_probe;
static struct uref g_u0, g_u1, g_u2, g_u3, g_unew; static struct uref_mgr g_umgr;
#define UR(k) ((k) == 0 ? &g_u0 : (k) == 1 ? &g_u1 : (k) == 2 ? &g_u2 : (k) == 3 ? &g_u3 : &g_unew)
#define UIDX(u) ((u) == &g_u0 ? 0 : (u) == &g_u1 ? 1 : (u) == &g_u2 ? 2 : (u) == &g_u3 ? 3 : (u) == &g_unew ? 4 : -1)
static int g_accept;                      /* how many buffers the sink takes before refusing */
static int g_offered, g_taken, g_order_bad, g_freed[MAXH + 1], g_free_unknown;
static struct uref *g_seen[MAXH + 1];
static bool stub_sink(struct upipe *upipe, struct uref *uref, struct upump **upump_p)
{
    if (g_offered <= MAXH) g_seen[g_offered] = uref;
    g_offered++;
    if (g_taken >= g_accept) return false;
    g_taken++;
    return true;                          /* (ownership: a real sink would forward or free it) */
}
static void stub_uref_free_cnt(struct uref *uref) { int k = UIDX(uref); if (k >= 0) g_freed[k]++; else g_free_unknown++; }
static int stub_throw(struct uprobe *uprobe, struct upipe *upipe, int event, va_list args) { return UBASE_ERR_NONE; }
/* ---- source pumps and their blockers (stub event-loop manager: hands out / takes back blocker structures) ---------- */
#ifndef NBLK
#define NBLK 0
#endif
#ifndef PUMPSEL
#define PUMPSEL 2           /* 0: upump_p == NULL, 1: *upump_p == NULL, 2: pump A, 3: pump B */
#endif
static struct upump g_pumpA, g_pumpB; static struct upump_mgr g_pump_mgr;
static struct upump_blocker g_bl0, g_bl1, g_blnew;          /* g_bl0 on pump A, g_bl1 on pump B (when on the list) */
static int g_bl_alloc, g_bl_freed[3], g_bl_free_unknown; static bool g_bl_alloc_fails;
static int stub_pump_control(struct upump *upump, int command, va_list args)
{
    if (command == UPUMP_ALLOC_BLOCKER) {
        struct upump_blocker **p = va_arg(args, struct upump_blocker **);
        g_bl_alloc++;
        if (g_bl_alloc_fails) { *p = NULL; return UBASE_ERR_ALLOC; }
        *p = &g_blnew; return UBASE_ERR_NONE;
    }
    if (command == UPUMP_FREE_BLOCKER) {
        struct upump_blocker *b = va_arg(args, struct upump_blocker *);
        if (b == &g_bl0) g_bl_freed[0]++; else if (b == &g_bl1) g_bl_freed[1]++; else if (b == &g_blnew) g_bl_freed[2]++; else g_bl_free_unknown++;
        return UBASE_ERR_NONE;
    }
    return UBASE_ERR_UNHANDLED;
}
/* the blockers list is exactly bseq[0..n) */
static bool spec_blockers_are(struct upump_blocker *const *bseq, int n)
{
    struct uchain *h = &g_p.blockers, *c = h;
    for (int k = 0; k < 3; k++) {
        if (k >= n) break;
        struct uchain *nx = c->next;
        if (nx != &bseq[k]->uchain || nx->prev != c) return false;
        c = nx;
    }
    return c->next == h && h->prev == c;
}
/* the held sequence is exactly seq[0..n) */
static bool spec_seq_is(struct uref *const *seq, int n)
{
    struct uchain *h = &g_p.urefs, *c = h;
    for (int k = 0; k < MAXH + 1; k++) {
        if (k >= n) break;
        struct uchain *nx = c->next;
        if (nx != &seq[k]->uchain || nx->prev != c) return false;
        c = nx;
    }
    return c->next == h && h->prev == c && g_p.nb_urefs == (unsigned)n;
}
#define BUILD() \
    g_pmgr.signature = VIN_PIPE_SIGNATURE; g_pmgr.refcount = NULL; g_probe.uprobe_throw = stub_throw; g_probe.next = NULL; g_probe.refcount = NULL; \
    g_p.upipe.mgr = &g_pmgr; g_p.upipe.uprobe = &g_probe; g_p.upipe.refcount = NULL; uchain_init(&g_p.upipe.uchain); \
    g_umgr.uref_free = stub_uref_free_cnt; g_umgr.refcount = NULL; \
    struct upipe *upipe = &g_p.upipe; \
    vin_pipe_init_input(upipe); \
    VIN(unsigned int, maxlen); g_p.max_urefs = maxlen; \
    for (int k_ = 0; k_ <= MAXH; k_++) { struct uref *u_ = UR(k_); u_->mgr = &g_umgr; u_->ubuf = NULL; u_->udict = NULL; uchain_init(&u_->uchain); g_freed[k_] = 0; g_seen[k_] = NULL; } \
    for (int k_ = 0; k_ < NHELD; k_++) { ulist_add(&g_p.urefs, &UR(k_)->uchain); g_p.nb_urefs++; } \
    g_offered = g_taken = g_order_bad = g_free_unknown = 0; \
    g_pump_mgr.upump_control = stub_pump_control; g_pumpA.mgr = &g_pump_mgr; g_pumpB.mgr = &g_pump_mgr; \
    g_bl_alloc = 0; g_bl_freed[0] = g_bl_freed[1] = g_bl_freed[2] = 0; g_bl_free_unknown = 0; \
    { VIN(uint8_t, blfail); g_bl_alloc_fails = (blfail & 1) != 0; } \
    g_bl0.upump = &g_pumpA; g_bl0.cb = vin_pipe_block_input_cb; g_bl0.opaque = upipe; uchain_init(&g_bl0.uchain); \
    g_bl1.upump = &g_pumpB; g_bl1.cb = vin_pipe_block_input_cb; g_bl1.opaque = upipe; uchain_init(&g_bl1.uchain); \
    if (NBLK >= 1) ulist_add(&g_p.blockers, &g_bl0.uchain); \
    if (NBLK >= 2) ulist_add(&g_p.blockers, &g_bl1.uchain); \
    struct upump_blocker *bseq[4] = { NULL, NULL, NULL, NULL }; \
    struct uref *seq[MAXH + 2]; for (int k_ = 0; k_ < MAXH + 2; k_++) seq[k_] = NULL

void h_hold(void)
{
    BUILD();
    vin_pipe_hold_input(upipe, &g_unew);
    for (int k = 0; k < NHELD; k++) seq[k] = UR(k); seq[NHELD] = &g_unew;
    VPOST(spec_seq_is(seq, NHELD + 1));
    VCANARY();
}
void h_pop(void)
{
    BUILD();
    struct uref *r = vin_pipe_pop_input(upipe);
    for (int k = 1; k < NHELD; k++) seq[k - 1] = UR(k);
    VPOST(NHELD == 0 ? (r == NULL && spec_seq_is(seq, 0)) : (r == UR(0) && spec_seq_is(seq, NHELD - 1)));
    VCANARY();
}
void h_unshift(void)
{
    BUILD();
    vin_pipe_unshift_input(upipe, &g_unew);
    seq[0] = &g_unew; for (int k = 0; k < NHELD; k++) seq[k + 1] = UR(k);
    VPOST(spec_seq_is(seq, NHELD + 1));
    VCANARY();
}
void h_output_input(void)
{
    BUILD();
    VIN(uint8_t, accept); g_accept = accept;
    bool ret = vin_pipe_output_input(upipe);
    int taken = accept < NHELD ? accept : NHELD;
    /* offered from the head, in arrival order, each once, stopping at the first refusal */
    VPOST(g_taken == taken && g_offered == (taken < NHELD ? taken + 1 : taken));
    VIN(uint8_t, gk); VASSUME(gk < MAXH);
    VPOST(gk >= g_offered || g_seen[gk] == UR(gk));
    /* what is left: the refused buffer first, then the others in order */
    for (int k = taken; k < NHELD; k++) seq[k - taken] = UR(k);
    VPOST(spec_seq_is(seq, NHELD - taken));
    VPOST(ret == (taken == NHELD));
    VCANARY();
}
void h_clean(void)
{
    BUILD();
    vin_pipe_clean_input(upipe);
    VPOST(spec_seq_is(seq, 0) && g_free_unknown == 0 && ulist_empty(&g_p.blockers));
    /* every blocker the pipe held on a source pump is released exactly once (the pumps may run again) */
    VPOST(g_bl_freed[0] == (NBLK >= 1 ? 1 : 0) && g_bl_freed[1] == (NBLK >= 2 ? 1 : 0) && g_bl_free_unknown == 0);
    VIN(uint8_t, gk); VASSUME(gk < MAXH);
    VPOST(g_freed[gk] == (gk < NHELD ? 1 : 0));
    VCANARY();
}
void h_block_input(void)
{
    BUILD();
    struct upump *sel = PUMPSEL == 2 ? &g_pumpA : PUMPSEL == 3 ? &g_pumpB : NULL;
    struct upump **upump_p = PUMPSEL == 0 ? NULL : &sel;
    for (int k = 0; k < NHELD; k++) seq[k] = UR(k);
    vin_pipe_block_input(upipe, upump_p);
    bool already = (PUMPSEL == 2 && NBLK >= 1) || (PUMPSEL == 3 && NBLK >= 2);
    bool should = PUMPSEL >= 2 && (unsigned)NHELD > maxlen && !already;
    int n = 0; if (NBLK >= 1) bseq[n++] = &g_bl0; if (NBLK >= 2) bseq[n++] = &g_bl1;
    VPOST(spec_seq_is(seq, NHELD));                              /* held buffers untouched */
    if (should && !g_bl_alloc_fails) {
        bseq[n++] = &g_blnew;
        /* one blocker on that pump, calling back into this pipe */
        VPOST(spec_blockers_are(bseq, n) && g_bl_alloc == 1 && g_blnew.upump == sel && g_blnew.cb == vin_pipe_block_input_cb && g_blnew.opaque == upipe);
    } else {
        VPOST(spec_blockers_are(bseq, n) && g_bl_alloc == (should ? 1 : 0));
    }
    VCANARY();
}
void h_unblock_input(void)
{
    BUILD();
    for (int k = 0; k < NHELD; k++) seq[k] = UR(k);
    vin_pipe_unblock_input(upipe);
    int n = 0; if (NBLK >= 1) bseq[n++] = &g_bl0; if (NBLK >= 2) bseq[n++] = &g_bl1;
    VPOST(spec_seq_is(seq, NHELD) && g_bl_free_unknown == 0);
    if ((unsigned)NHELD > maxlen) { VPOST(spec_blockers_are(bseq, n) && g_bl_freed[0] == 0 && g_bl_freed[1] == 0); }      /* still too many held: stay blocked */
    else { VPOST(ulist_empty(&g_p.blockers) && g_bl_freed[0] == (NBLK >= 1) && g_bl_freed[1] == (NBLK >= 2)); }           /* drained: every source pump released once */
    VCANARY();
}
void h_max_length(void)
{
    BUILD();
    VIN(unsigned int, val); unsigned int out = 0;
    for (int k = 0; k < NHELD; k++) seq[k] = UR(k);
    int r1 = vin_pipe_set_max_length(upipe, val);
    int r2 = vin_pipe_get_max_length(upipe, &out);
    VPOST(r1 == UBASE_ERR_NONE && r2 == UBASE_ERR_NONE && out == val && g_p.max_urefs == val && spec_seq_is(seq, NHELD));
    VCANARY();
}
#ifdef VENTRY
VMAIN(VENTRY)
#endif
