/* Contract unit: lib/upipe-modules/upipe_chunk_stream.c (included whole)   (C20 control; C14 groups later)
 * Options: (mtu, align) with the derived chunk size = (mtu / align) * align, which is what the data path uses.
 */
#include "lib/upipe-modules/upipe_chunk_stream.c"
#include "vspec.h"
#include "vstub_pipe.h"

#define S_CS(p) ((struct upipe_chunk_stream *)((char *)(p) - offsetof(struct upipe_chunk_stream, upipe)))

static struct upipe_chunk_stream g_cs;
static struct upipe *g_pipe;
static int g_cmd; static unsigned int g_sig, g_a, g_b, *g_pa, *g_pb;
static unsigned int g_mtu_old, g_align_old, g_size_old, g_oa_old, g_ob_old;

/* option invariant: what the data path uses is derived from what the getter reports */
/* VDERIVED: also state the derived-size equation (a 32-bit divider in the specification: only tractable
 * under an operand-width bound VWIDTH, see unit.json); without it the option pair and "size unchanged on
 * rejection" are proved at full width */
static inline bool spec_cs_inv(const struct upipe_chunk_stream *cs)
{
    return cs->mtu != 0 && cs->align != 0 && cs->align < cs->mtu
#ifdef VDERIVED
           && cs->size == (cs->mtu / cs->align) * cs->align
#endif
           ;
}
static inline bool spec_cs_unchanged(const struct upipe_chunk_stream *cs)
{
    return cs->mtu == g_mtu_old && cs->align == g_align_old && cs->size == g_size_old;
}
static inline bool pre_cs_control(struct upipe *upipe, int command)
{
    struct upipe_chunk_stream *cs = S_CS(upipe);
    return upipe == g_pipe && upipe == &g_cs.upipe && command == g_cmd && spec_cs_inv(cs) && spec_cs_unchanged(cs) &&
           (g_pa == NULL || *g_pa == g_oa_old) && (g_pb == NULL || *g_pb == g_ob_old) &&
           upipe->uprobe == &gs_probe;
}
/* setter: accepted => stored (and the derived size follows); rejected => the previous values stay in force */
static inline bool post_cs_set(struct upipe *upipe, int command, int ret)
{
    struct upipe_chunk_stream *cs = S_CS(upipe);
    if (command != UPIPE_CHUNK_STREAM_SET_MTU) return true;
    if (g_sig != UPIPE_CHUNK_STREAM_SIGNATURE) return ret == UBASE_ERR_UNHANDLED && spec_cs_unchanged(cs);
    if (ret == UBASE_ERR_NONE) return cs->mtu == g_a && cs->align == g_b && spec_cs_inv(cs);
    return spec_cs_unchanged(cs);
}
/* the setter accepts exactly the usable pairs */
static inline bool post_cs_set_accepts(struct upipe *upipe, int command, int ret)
{
    if (command != UPIPE_CHUNK_STREAM_SET_MTU || g_sig != UPIPE_CHUNK_STREAM_SIGNATURE) return true;
    bool usable = g_a != 0 && g_b != 0 && g_b < g_a;
    return ret == (usable ? UBASE_ERR_NONE : UBASE_ERR_INVALID);
}
/* getter: reports the stored values, changes nothing */
static inline bool post_cs_get(struct upipe *upipe, int command, int ret)
{
    struct upipe_chunk_stream *cs = S_CS(upipe);
    if (command != UPIPE_CHUNK_STREAM_GET_MTU) return true;
    if (!spec_cs_unchanged(cs)) return false;
    if (g_sig != UPIPE_CHUNK_STREAM_SIGNATURE)
        return ret == UBASE_ERR_UNHANDLED && (g_pa == NULL || *g_pa == g_oa_old) && (g_pb == NULL || *g_pb == g_ob_old);
    return ret == UBASE_ERR_NONE && (g_pa == NULL || *g_pa == g_mtu_old) && (g_pb == NULL || *g_pb == g_align_old);
}
static inline bool post_cs_other(struct upipe *upipe, int command, int ret)
{
    if (command == UPIPE_CHUNK_STREAM_SET_MTU || command == UPIPE_CHUNK_STREAM_GET_MTU) return true;
    return ret == UBASE_ERR_UNHANDLED && spec_cs_unchanged(S_CS(upipe));
}
#define POSTS_cs_control(P) P(post_cs_set) P(post_cs_set_accepts) P(post_cs_get) P(post_cs_other)

#ifndef VNATIVE
static int upipe_chunk_stream_control(struct upipe *upipe, int command, va_list args)
__CPROVER_requires(pre_cs_control(upipe, command))
__CPROVER_assigns(g_cmd == UPIPE_CHUNK_STREAM_SET_MTU && g_sig == UPIPE_CHUNK_STREAM_SIGNATURE: g_cs.mtu, g_cs.align, g_cs.size;
                  g_cmd == UPIPE_CHUNK_STREAM_GET_MTU && g_sig == UPIPE_CHUNK_STREAM_SIGNATURE && g_pa != NULL: *g_pa;
                  g_cmd == UPIPE_CHUNK_STREAM_GET_MTU && g_sig == UPIPE_CHUNK_STREAM_SIGNATURE && g_pb != NULL: *g_pb;
                  /* the rejected setter logs a warning through the probe stub */
                  gs_ev_count, gs_ev_last, gs_ev_pipe, gs_ev_after_dead)
#define P(p) __CPROVER_ensures(p(upipe, command, __CPROVER_return_value))
POSTS_cs_control(P)
#undef P
;
#endif

static struct upipe *build_cs(void)
{
    vs_reset_all();
    VPIPE_INIT_MGR(upipe_chunk_stream_mgr, UPIPE_CHUNK_STREAM_SIGNATURE, upipe_chunk_stream_alloc,
                   upipe_chunk_stream_input, upipe_chunk_stream_control);
    struct upipe *upipe = &g_cs.upipe;
    VPIPE_INIT_UPIPE(upipe, &upipe_chunk_stream_mgr, &g_cs.urefcount, upipe_chunk_stream_dead_urefcount, 1);
    g_cs.output = NULL; g_cs.flow_def = NULL; g_cs.output_state = UPIPE_HELPER_OUTPUT_NONE;
    ulist_init(&g_cs.request_list);
    g_cs.next_uref = NULL; g_cs.next_uref_size = 0; ulist_init(&g_cs.urefs);
    g_cs.mtu = DEFAULT_MTU; g_cs.align = DEFAULT_ALIGN; g_cs.size = (DEFAULT_MTU / DEFAULT_ALIGN) * DEFAULT_ALIGN;
    return upipe;
}
static int call_cs_control(struct upipe *upipe, int command, ...)
{
    va_list args; va_start(args, command);
    int ret = upipe_chunk_stream_control(upipe, command, args);
    va_end(args);
    return ret;
}
#ifndef VCMD
#define VCMD UPIPE_CHUNK_STREAM_GET_MTU
#endif
void h_cs_control(void)
{
    struct upipe *upipe = build_cs();
    /* any reachable option state: any pair the setter accepts */
    VIN(unsigned int, cur_mtu); VIN(unsigned int, cur_align);
    VASSUME(cur_mtu != 0 && cur_align != 0 && cur_align < cur_mtu);
#ifdef VWIDTH
    VASSUME(cur_mtu < (1u << VWIDTH));
#endif
    VIN(unsigned int, cur_size);          /* bound to the pair by the precondition when VDERIVED */
    g_cs.mtu = cur_mtu; g_cs.align = cur_align; g_cs.size = cur_size;
    VIN(unsigned int, sig); VIN(unsigned int, a); VIN(unsigned int, b); VIN(bool, null_a); VIN(bool, null_b);
    VIN(unsigned int, out_a); VIN(unsigned int, out_b);
#ifdef VWIDTH
    VASSUME(a < (1u << VWIDTH) && b < (1u << VWIDTH));
#endif
    int command = VCMD;
    unsigned int *pa = null_a ? NULL : &out_a, *pb = null_b ? NULL : &out_b;
    g_pipe = upipe; g_cmd = command; g_sig = sig; g_a = a; g_b = b;
    g_pa = command == UPIPE_CHUNK_STREAM_GET_MTU ? pa : NULL; g_pb = command == UPIPE_CHUNK_STREAM_GET_MTU ? pb : NULL;
    g_mtu_old = g_cs.mtu; g_align_old = g_cs.align; g_size_old = g_cs.size; g_oa_old = out_a; g_ob_old = out_b;
    VPRE(pre_cs_control(upipe, command));
    int ret;
    if (command == UPIPE_CHUNK_STREAM_GET_MTU) ret = call_cs_control(upipe, command, sig, pa, pb);
    else ret = call_cs_control(upipe, command, sig, a, b);
#define P(p_) VPOST(p_(upipe, command, ret));
    POSTS_cs_control(P)
#undef P
    VCANARY();
}

#ifdef VENTRY
VMAIN(VENTRY)
#endif
