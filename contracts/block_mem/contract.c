/* Contract unit: lib/upipe/ubuf_block_mem.c + lib/upipe/ubuf_mem_common.c (included whole), with the real
 * include/upipe/ubuf_block_common.h, ubuf_mem_common.h, upool.h / ulifo.h (pool depth 0) and uatomic.h
 * (properties C02, C03 "freshly allocated block is one segment", C01/C09 "area returned exactly once")
 *
 * The manager is built by the real ubuf_block_mem_mgr_alloc (pools of depth 0) on a stub umem manager; blocks are built
 * by the real ubuf_block_alloc / ubuf_block_append. INV_share: the reference count of a memory area equals the number of
 * segments that point at it (plus the extra holders the harness declares). Contracts (assume/assert harness, see
 * DESIGN: DFCC's write-set instrumentation does not survive the va_list + recursion through the manager):
 *   alloc    : NULL, or ONE segment (next_ubuf NULL) of the requested size, window inside the allocation with room for
 *              prepend/append, WF, area count 1;
 *   single   : OK iff the area's count is 1, BUSY otherwise; write mapping granted only then; nothing changed;
 *   dup      : NULL and every count / live object as before, or a block with the same view whose segments share the
 *              areas (each count +1), the original untouched;
 *   splice   : NULL and balanced, or a block whose view is view[o, o+n) of the original, sharing the areas;
 *   free     : every segment released once, an area returned to umem iff the count it saw was 1.
 * Allocation failures are explored (--malloc-may-fail --malloc-fail-null, umem stub may fail).
 */
/* The lock-free structure pool (upool over ulifo/uring: CAS retry loops, C07) is replaced, for the code under
 * verification, by its depth-0 behaviour: allocate through alloc_cb, free through free_cb, one manager reference per
 * live structure — assumed contract of upool_alloc / upool_free (listed in the trusted base). */
#include <upipe/ubase.h>
#include <upipe/upool.h>
static inline void stub_upool_init(struct upool *upool, struct urefcount *refcount, uint16_t length, void *extra,
                                   upool_alloc_cb alloc_cb, upool_free_cb free_cb)
{
    upool->refcount = refcount; upool->alloc_cb = alloc_cb; upool->free_cb = free_cb;
}
static inline void *stub_upool_alloc_internal(struct upool *upool)
{
    void *obj = upool->alloc_cb(upool);
    if (obj != NULL) upool_use(upool);
    return obj;
}
static inline void stub_upool_free(struct upool *upool, void *obj) { upool->free_cb(upool, obj); upool_release(upool); }
static inline void stub_upool_vacuum(struct upool *upool) { }
static inline void stub_upool_clean(struct upool *upool) { }
#define upool_init stub_upool_init
#define upool_alloc_internal stub_upool_alloc_internal
#define upool_free stub_upool_free
#define upool_vacuum stub_upool_vacuum
#define upool_clean stub_upool_clean
#include "lib/upipe/ubuf_block_mem.c"
#include "lib/upipe/ubuf_mem_common.c"
#include "vspec.h"
#include "vstub_choice.h"

#ifndef NSEG
#define NSEG 1
#endif
#define MAXW 5
#define SB(u) container_of(u, struct ubuf_block, ubuf)
#define SBM(u) container_of(u, struct ubuf_block_mem, ubuf_block.ubuf)
static struct ubuf_mgr *g_mgr;
#define VSPEC_MGR g_mgr
#include "blockspec.h"

/* ---- objects: everything static (segments, areas, manager), handed out by the stub callbacks ------------------ */
static struct ubuf_block_mem_mgr g_mm;
static struct ubuf_block_mem g_bm0, g_bm1, g_bm2, g_sbm0, g_sbm1, g_sbm2;   /* block segments / spare structures of the pool */
static struct ubuf_mem_shared g_sh0, g_sh1, g_sh2, g_ssh0;                    /* areas of the block / spare area structure */
static uint8_t g_buf0[1], g_buf1[1], g_buf2[1], g_sbuf[1];
#define BM(k) ((k) == 0 ? &g_bm0 : (k) == 1 ? &g_bm1 : &g_bm2)
#define SH(k) ((k) == 0 ? &g_sh0 : (k) == 1 ? &g_sh1 : &g_sh2)
#define BUF(k) ((k) == 0 ? g_buf0 : (k) == 1 ? g_buf1 : g_buf2)
/* ---- umem stub + pool callbacks (ghost: live objects) -------------------------------------- */
static struct umem_mgr g_umem_mgr; static struct urefcount g_umem_rc;
static int g_umem_live, g_umem_allocs, g_umem_frees;
static int g_blk_live, g_sh_live, g_blk_given, g_sh_given;
static uint8_t *g_freed_buf[4]; static int g_nfreed;
static bool g_bad_free;
static bool stub_umem_alloc(struct umem_mgr *mgr, struct umem *umem, size_t size)
{
    if (VS_CHOICE(umem_fails) & 1) return false;
    umem->buffer = g_sbuf; umem->mgr = mgr; umem->size = size; umem->real_size = size;
    g_umem_live++; g_umem_allocs++;
    return true;
}
static void stub_umem_free(struct umem *umem)
{
    if (g_nfreed < 4) g_freed_buf[g_nfreed] = umem->buffer;
    g_nfreed++;
    if (umem->buffer == NULL) g_bad_free = true;
    umem->buffer = NULL;
    g_umem_live--; g_umem_frees++;
}
static void stub_umem_rc_cb(struct urefcount *rc) { }
static void stub_mgr_rc_cb(struct urefcount *rc) { }
/* pool callbacks: as ubuf_block_mem_alloc_inner / ubuf_mem_shared_alloc_inner, on static spare structures; may fail */
static void *stub_cnt_blk_alloc(struct upool *p)
{
    if (g_blk_given >= 3 || (VS_CHOICE(blk_alloc_fails) & 1)) return NULL;
    struct ubuf_block_mem *o = g_blk_given == 0 ? &g_sbm0 : g_blk_given == 1 ? &g_sbm1 : &g_sbm2;
    g_blk_given++; g_blk_live++;
    o->ubuf_block.ubuf.mgr = &g_mm.mgr;
    return o;
}
static void stub_cnt_blk_free(struct upool *p, void *o) { g_blk_live--; }
static void *stub_cnt_sh_alloc(struct upool *p)
{
    if (g_sh_given >= 1 || (VS_CHOICE(sh_alloc_fails) & 1)) return NULL;
    g_sh_given++; g_sh_live++;
    g_ssh0.refcount = 1; g_ssh0.pool = p;
    return &g_ssh0;
}
static void stub_cnt_sh_free(struct upool *p, void *o) { g_sh_live--; }

/* ---- ghost ------------------------------------------------------------------------------------------------ */
static struct vsnap g_o;
static struct ubuf_mem_shared *g_sh[MAXW]; static uint32_t g_rc_old[MAXW]; static int g_nsh;   /* areas of the block and their counts at entry */
static int g_blk_live_old, g_sh_live_old, g_umem_live_old;
static size_t g_prepend, g_append;

/* ---- spec --------------------------------------------------------------------------------------------------- */
static inline uint32_t spec_rc(struct ubuf_mem_shared *sh) { return sh->refcount; }   /* sequential read of the counter */
/* counts of the entry areas are old + delta(k) where delta(k) = number of segments of `chain` on area k */
static inline bool spec_counts(struct ubuf *chain, int sign)
{
    for (int k = 0; k < MAXW; k++) {
        if (k >= g_nsh) break;
        bool seen_before = false;
        for (int j = 0; j < MAXW; j++) { if (j >= k) break; if (g_sh[j] == g_sh[k]) seen_before = true; }
        if (seen_before) continue;
        int delta = 0; struct ubuf *u = chain;
        for (int j = 0; j < MAXW; j++) { if (u == NULL) break; if (SBM(u)->shared == g_sh[k]) delta++; u = SB(u)->next_ubuf; }
        if (spec_rc(g_sh[k]) != g_rc_old[k] + (uint32_t)(sign * delta)) return false;
    }
    return true;
}
static inline bool spec_balanced(void)
{
    return g_blk_live == g_blk_live_old && g_sh_live == g_sh_live_old && g_umem_live == g_umem_live_old && spec_counts(NULL, 1);
}
/* every segment of a new chain points at its area's buffer and is a live structure of this manager */
static inline bool spec_segs_ok(struct ubuf *h)
{
    for (int k = 0; k < MAXW; k++) {
        if (h == NULL) return true;
        if (SBM(h)->shared == NULL || SB(h)->buffer != SBM(h)->shared->umem.buffer || SB(h)->map) return false;
        if (SB(h)->offset > SBM(h)->shared->umem.size || SB(h)->size > SBM(h)->shared->umem.size - SB(h)->offset) return false;
        h = SB(h)->next_ubuf;
    }
    return false;
}
static inline bool post_alloc(struct ubuf *ret, int size)
{
    if (ret == NULL) return spec_balanced();
    if (size < 0) return false;
    struct ubuf_block *b = SB(ret); struct ubuf_block_mem *bm = SBM(ret);
    /* one contiguous segment (doc/rules.mkdoc) */
    if (b->next_ubuf != NULL || b->size != (size_t)size || b->total_size != (size_t)size) return false;
    if (!spec_wf(ret) || b->cached_ubuf != ret || b->cached_offset != 0) return false;
    if (bm->shared == NULL || spec_rc(bm->shared) != 1 || b->buffer != bm->shared->umem.buffer || b->map) return false;
    /* window inside the allocation, with the configured room before and after */
    if (b->offset < g_prepend || b->offset > bm->shared->umem.size) return false;
    if (bm->shared->umem.size - b->offset < (size_t)size + g_append) return false;
    return g_blk_live == g_blk_live_old + 1 && g_sh_live == g_sh_live_old + 1 && g_umem_live == g_umem_live_old + 1;
}
static inline bool post_single(struct ubuf *ubuf, int ret)
{
    return ret == (g_rc_old[0] == 1 ? UBASE_ERR_NONE : UBASE_ERR_BUSY) && spec_balanced() &&
           spec_wf(ubuf) && spec_unchanged(ubuf, &g_o);
}
static inline bool post_write(struct ubuf *ubuf, int ret)
{
    /* a writable mapping is granted only while the area has a single owner */
    return (ret != UBASE_ERR_NONE || g_rc_old[0] == 1) && (g_rc_old[0] == 1 || ret == UBASE_ERR_BUSY || ret == UBASE_ERR_INVALID) &&
           spec_balanced() && spec_wf(ubuf) && spec_unchanged(ubuf, &g_o);
}
static inline bool post_dup(struct ubuf *ubuf, struct ubuf *ret)
{
    if (!spec_wf(ubuf) || !spec_unchanged(ubuf, &g_o) || !spec_snap_is(&g_o, ubuf)) return false;
    if (ret == NULL) return spec_balanced();
    if (!spec_wf(ret) || !spec_segs_ok(ret) || !spec_counts(ret, 1)) return false;
    if (SB(ret)->total_size != g_o.total || spec_len(ret) != g_o.n) return false;
    if (g_blk_live != g_blk_live_old + g_o.n || g_sh_live != g_sh_live_old || g_umem_live != g_umem_live_old) return false;
    return g_i >= g_o.total || spec_same(ret, g_i, &g_o, g_i);
}
static inline bool post_splice(struct ubuf *ubuf, int offset, int size, struct ubuf *ret)
{
    if (!spec_wf(ubuf) || !spec_unchanged(ubuf, &g_o)) return false;
    if (ret == NULL) return spec_balanced();
    size_t o, n;
    if (!spec_range(g_o.total, offset, size, &o, &n)) return false;            /* accepted a range outside the block */
    if (!spec_wf(ret) || !spec_segs_ok(ret) || !spec_counts(ret, 1)) return false;
    if (SB(ret)->total_size != n) return false;
    if (g_sh_live != g_sh_live_old || g_umem_live != g_umem_live_old) return false;
    return g_i >= n || spec_same(ret, g_i, &g_o, o + g_i);
}
/* free: each area is returned to umem iff the count it had was the number of segments of the block on it */
static inline bool post_free(void)
{
    if (g_blk_live != g_blk_live_old - g_o.n) return false;
    int expect_freed = 0;
    for (int k = 0; k < MAXW; k++) {
        if (k >= g_nsh) break;
        bool seen_before = false;
        for (int j = 0; j < MAXW; j++) { if (j >= k) break; if (g_sh[j] == g_sh[k]) seen_before = true; }
        if (seen_before) continue;
        uint32_t onblock = 0;
        for (int j = 0; j < MAXW; j++) { if (j >= g_nsh) break; if (g_sh[j] == g_sh[k]) onblock++; }
        if (g_rc_old[k] == onblock) expect_freed++;
        else if (spec_rc(g_sh[k]) != g_rc_old[k] - onblock) return false;       /* still owned by others: count reduced, area alive */
    }
    return g_nfreed == expect_freed && g_umem_live == g_umem_live_old - expect_freed && g_sh_live == g_sh_live_old - expect_freed;
}

/* ---- entries ---------------------------------------------------------------------------------------------------- */
#define BUILD_MGR() \
    VIN(uint16_t, prepend); VIN(uint16_t, append); VIN(uint16_t, align); VIN(int8_t, align_offset); \
    VASSUME(prepend <= 1024 && append <= 1024 && align <= 64); \
    g_umem_rc.refcount = 1; g_umem_rc.cb = stub_umem_rc_cb; g_umem_mgr.refcount = &g_umem_rc; \
    g_umem_mgr.umem_alloc = stub_umem_alloc; g_umem_mgr.umem_free = stub_umem_free; \
    /* the manager as ubuf_block_mem_mgr_alloc sets it up (the function itself mallocs; its field assignments are repeated here) */ \
    g_mm.prepend = prepend; g_mm.append = append; g_mm.align = align; g_mm.align_offset = align_offset; \
    g_mm.urefcount.refcount = 1; g_mm.urefcount.cb = stub_mgr_rc_cb; g_mm.mgr.refcount = &g_mm.urefcount; \
    g_mm.mgr.signature = UBUF_ALLOC_BLOCK; g_mm.mgr.ubuf_alloc = ubuf_block_mem_alloc; \
    g_mm.mgr.ubuf_control = ubuf_block_mem_control; g_mm.mgr.ubuf_free = ubuf_block_mem_free; \
    g_mm.mgr.ubuf_mgr_control = ubuf_block_mem_mgr_control; g_mm.umem_mgr = &g_umem_mgr; \
    ubuf_block_mem_mgr_init_pool(&g_mm.mgr, 0, 0, NULL, stub_cnt_blk_alloc, stub_cnt_blk_free); \
    g_mm.shared_pool.alloc_cb = stub_cnt_sh_alloc; g_mm.shared_pool.free_cb = stub_cnt_sh_free; \
    g_mgr = &g_mm.mgr; g_prepend = prepend; g_append = append
/* a block of NSEG segments with symbolic windows, each on its own area or sharing the previous one's; extra holders per area */
#define BUILD_CHAIN() \
    BUILD_MGR(); \
    VIN_ARR(uint16_t, asz, 3); VIN_ARR(uint16_t, skip, 3); VIN_ARR(uint16_t, keep, 3); VIN_ARR(uint8_t, extra, 3); VIN_ARR(uint8_t, sameprev, 3); \
    VIN(size_t, gi); g_i = gi; \
    struct ubuf *ubuf = &g_bm0.ubuf_block.ubuf; \
    { size_t pos_ = 0; \
      for (int k_ = 0; k_ < NSEG; k_++) { \
        VASSUME(asz[k_] <= 4096 && skip[k_] <= asz[k_] && keep[k_] <= asz[k_] - skip[k_] && extra[k_] <= 2); \
        struct ubuf_block_mem *m_ = BM(k_); struct ubuf_mem_shared *sh_ = SH(k_); \
        if (k_ > 0 && (sameprev[k_] & 1) && skip[k_] + keep[k_] <= asz[k_ - 1]) sh_ = BM(k_ - 1)->shared; \
        else { sh_->refcount = extra[k_]; sh_->pool = &g_mm.shared_pool; sh_->umem.mgr = &g_umem_mgr; sh_->umem.buffer = BUF(k_); \
               sh_->umem.size = asz[k_]; sh_->umem.real_size = asz[k_]; g_umem_live++; g_sh_live++; } \
        sh_->refcount++; \
        m_->shared = sh_; g_sh[k_] = sh_; \
        struct ubuf_block *b_ = &m_->ubuf_block; \
        b_->ubuf.mgr = &g_mm.mgr; b_->offset = skip[k_]; b_->size = keep[k_]; b_->buffer = sh_->umem.buffer; b_->map = false; \
        b_->next_ubuf = k_ + 1 < NSEG ? &BM(k_ + 1)->ubuf_block.ubuf : NULL; \
        b_->total_size = keep[k_]; b_->cached_ubuf = &b_->ubuf; b_->cached_offset = 0; b_->cached_end_ubuf = NULL; \
        pos_ += keep[k_]; g_blk_live++; \
      } \
      g_bm0.ubuf_block.total_size = pos_; \
    } \
    g_nsh = NSEG; \
    for (int k_ = 0; k_ < NSEG; k_++) g_rc_old[k_] = g_sh[k_]->refcount; \
    H_spec_snap(&g_o, ubuf); \
    g_blk_live_old = g_blk_live; g_sh_live_old = g_sh_live; g_umem_live_old = g_umem_live; g_nfreed = 0

void h_mem_alloc(void)
{
    BUILD_MGR();
    VIN(int, size); VASSUME(size <= (1 << 20));
    g_nsh = 0; g_blk_live_old = g_blk_live; g_sh_live_old = g_sh_live; g_umem_live_old = g_umem_live;
    struct ubuf *ret = ubuf_block_alloc(g_mgr, size);
    VPOST(post_alloc(ret, size));
    VCANARY();
}
void h_mem_single(void)
{
    BUILD_CHAIN();
    int ret = ubuf_control(ubuf, UBUF_SINGLE);
    VPOST(post_single(ubuf, ret));
    VCANARY();
}
void h_mem_write(void)
{
    BUILD_CHAIN();
    VIN(int, offset); VIN(int, size); int sz = size; uint8_t *buf = NULL;
    /* request inside the first segment (the one whose count is g_rc_old[0]) */
    VASSUME(offset >= 0 && (size_t)offset < g_o.size[0]);
    int ret = ubuf_block_write(ubuf, offset, &sz, &buf);
    VPOST(post_write(ubuf, ret));
    VCANARY();
}
void h_mem_dup(void)
{
    BUILD_CHAIN();
    struct ubuf *ret = ubuf_dup(ubuf);
    VPOST(post_dup(ubuf, ret));
    VCANARY();
}
void h_mem_splice(void)
{
    BUILD_CHAIN();
    VIN(int, offset); VIN(int, size);
    VASSUME(offset >= -16384 && offset <= 16384 && size >= -16384 && size <= 16384);   /* areas are <= 4096 octets: beyond +-16384 nothing new happens */
#ifdef KF_SPLICE_OVERSIZE
    VASSUME(H_range(g_o.total, offset, size));
#endif
    struct ubuf *ret = ubuf_block_splice(ubuf, offset, size);
    VPOST(post_splice(ubuf, offset, size, ret));
    VCANARY();
}
/* the manager's splice called as ubuf_block_splice calls it (block unit: segment, offset inside it, normalised size) */
void h_mem_splice_direct(void)
{
    BUILD_CHAIN();
    VIN(int, offset); VIN(int, size);
    VASSUME(offset >= 0 && (size_t)offset < g_o.size[0]);            /* ubuf_block_get resolved the position into the first segment */
    VASSUME(size >= 0 && H_range(g_o.total, offset, size));          /* ubuf_block_splice normalises -1 and only asks for ranges inside the block (block unit, post_splice) */
    struct ubuf *ret = NULL;
    int err = ubuf_block_mem_splice(ubuf, &ret, offset, size);
    VPOST(post_splice(ubuf, offset, size, err == UBASE_ERR_NONE ? ret : NULL));
    VCANARY();
}
void h_mem_free(void)
{
    BUILD_CHAIN();
    ubuf_free(ubuf);
    VPOST(post_free());
    VCANARY();
}

#ifdef VENTRY
VMAIN(VENTRY)
#endif
