/* Contract unit: ubuf_sound_mem_alloc (lib/upipe/ubuf_sound_mem.c) and ubuf_pic_mem_alloc (lib/upipe/ubuf_pic_mem.c)
 * (property C19: "alloc sizes every plane from size + margins + alignment"; the windows later accepted by plane_map lie
 *  inside the memory allocated for the plane and planes never alias)
 *
 * The real allocation functions run against stub pools (static structures) and a stub umem manager that records the
 * size asked for (g_asked) and hands out one area. Postconditions, for every plane p (NPL planes, ghost-free: all of them):
 *   sound   : planes[p].buffer >= area, planes[p].buffer + size*sample_size <= planes[p+1].buffer (no aliasing) and the
 *             last plane ends at or before area + g_asked;
 *   picture : stride >= row octets = ((hmprepend+hmsize+hmappend)/hsub)*macropixel_size; plane p occupies
 *             [buffer, buffer + lines*stride) with lines = (vprepend+vsize+vappend)/vsub, inside [area, area + g_asked), and
 *             ends at or before the next plane's buffer; INV_pic of the pic_common unit holds (prepend+size+append).
 *   the common fields are those requested; a refused request (bad size, failed allocation) leaves nothing allocated.
 * Sizes < 2^13 (samples, macropixels, lines), margins < 2^6, align <= 64: bounded by operand width (products < 2^31).
 */
#include <upipe/ubase.h>
#include <upipe/upool.h>
static inline void stub_upool_init(struct upool *upool, struct urefcount *refcount, uint16_t length, void *extra,
                                   upool_alloc_cb alloc_cb, upool_free_cb free_cb) { upool->refcount = refcount; upool->alloc_cb = alloc_cb; upool->free_cb = free_cb; }
static inline void *stub_upool_alloc_internal(struct upool *upool) { return upool->alloc_cb(upool); }
static inline void stub_upool_free(struct upool *upool, void *obj) { upool->free_cb(upool, obj); }
static inline void stub_upool_vacuum(struct upool *upool) { }
static inline void stub_upool_clean(struct upool *upool) { }
#define upool_init stub_upool_init
#define upool_alloc_internal stub_upool_alloc_internal
#define upool_free stub_upool_free
#define upool_vacuum stub_upool_vacuum
#define upool_clean stub_upool_clean
#include "lib/upipe/ubuf_mem_common.c"
#ifdef SOUND
#include "lib/upipe/ubuf_sound_mem.c"
#include "lib/upipe/ubuf_sound_common.c"
#else
#include "lib/upipe/ubuf_pic_mem.c"
#include "lib/upipe/ubuf_pic_common.c"
#endif
#include "vspec.h"
#include "vstub_choice.h"
#ifndef NPL
#define NPL 2
#endif
static uint8_t g_area[1]; static size_t g_asked; static int g_umem_live, g_obj_live, g_sh_live;
static struct umem_mgr g_umgr; static struct ubuf_mem_shared g_shared;
static bool stub_umem_alloc(struct umem_mgr *mgr, struct umem *umem, size_t size)
{
    if (VS_CHOICE(umem_fails) & 1) return false;
    g_asked = size; umem->buffer = g_area; umem->size = size; umem->real_size = size; umem->mgr = mgr; g_umem_live++;
    return true;
}
static void stub_umem_free(struct umem *umem) { g_umem_live--; }
static void *stub_sh_alloc(struct upool *p) { if (VS_CHOICE(sh_fails) & 1) return NULL; g_sh_live++; g_shared.pool = p; return &g_shared; }
static void stub_sh_free(struct upool *p, void *o) { g_sh_live--; }
static void stub_obj_free(struct upool *p, void *o) { g_obj_live--; }
static char g_names[4][4];
#ifdef SOUND
static struct ubuf_sound_mem_mgr g_mm; static struct ubuf_sound_common_mgr_plane g_mp[4]; static struct ubuf_sound_common_mgr_plane *g_mps[4];
static struct { struct ubuf_sound_mem m; struct ubuf_sound_common_plane slot[4]; } g_obj;
static void *stub_obj_alloc(struct upool *p) { if (VS_CHOICE(obj_fails) & 1) return NULL; g_obj_live++; g_obj.m.ubuf_sound_common.ubuf.mgr = &g_mm.common_mgr.mgr; return &g_obj.m; }
static struct ubuf *call_alloc(struct ubuf_mgr *mgr, uint32_t signature, ...)
{ va_list args; va_start(args, signature); struct ubuf *u = ubuf_sound_mem_alloc(mgr, signature, args); va_end(args); return u; }
void h_sound_alloc(void)
{
    VIN(uint8_t, ss); VIN(uint16_t, align); VIN(int, size);
    VASSUME(ss >= 1 && align <= 64 && size < (1 << 13));
    for (int p = 0; p < 4; p++) { g_names[p][0] = (char)('a' + p); g_names[p][1] = 0; g_mp[p].channel = g_names[p]; g_mps[p] = &g_mp[p]; }
    g_umgr.umem_alloc = stub_umem_alloc; g_umgr.umem_free = stub_umem_free;
    g_mm.align = align; g_mm.umem_mgr = &g_umgr; g_mm.common_mgr.sample_size = ss; g_mm.common_mgr.nb_planes = NPL; g_mm.common_mgr.planes = g_mps;
    g_mm.common_mgr.mgr.signature = UBUF_ALLOC_SOUND;
    g_mm.ubuf_pool.alloc_cb = stub_obj_alloc; g_mm.ubuf_pool.free_cb = stub_obj_free; g_mm.shared_pool.alloc_cb = stub_sh_alloc; g_mm.shared_pool.free_cb = stub_sh_free;
    g_umem_live = g_obj_live = g_sh_live = 0;
    struct ubuf *u = call_alloc(&g_mm.common_mgr.mgr, UBUF_ALLOC_SOUND, size);
    if (u == NULL) { VPOST(g_umem_live == 0 && g_obj_live == 0 && g_sh_live == 0); }
    else {
        struct ubuf_sound_common *c = ubuf_sound_common_from_ubuf(u);
        VPOST(size >= 0 && c->size == (size_t)size && g_umem_live == 1 && g_obj_live == 1 && g_sh_live == 1 && g_obj.m.shared == &g_shared && g_shared.refcount == 1);
        size_t need = (size_t)size * ss; bool ok = true;
        for (int p = 0; p < NPL; p++) {
            uint8_t *b = c->planes[p].buffer;
            if (b < g_area) ok = false;
            uint8_t *end = b + need;
            uint8_t *limit = p + 1 < NPL ? c->planes[p + 1].buffer : g_area + g_asked;
            if (end > limit) ok = false;
        }
        VPOST(ok);
    }
    VCANARY();
}
#else
static struct ubuf_pic_mem_mgr g_mm; static struct ubuf_pic_common_mgr_plane g_mp[4]; static struct ubuf_pic_common_mgr_plane *g_mps[4];
static struct { struct ubuf_pic_mem m; struct ubuf_pic_common_plane slot[4]; } g_obj;
static void *stub_obj_alloc(struct upool *p) { if (VS_CHOICE(obj_fails) & 1) return NULL; g_obj_live++; g_obj.m.ubuf_pic_common.ubuf.mgr = &g_mm.common_mgr.mgr; return &g_obj.m; }
static struct ubuf *call_alloc(struct ubuf_mgr *mgr, uint32_t signature, ...)
{ va_list args; va_start(args, signature); struct ubuf *u = ubuf_pic_mem_alloc(mgr, signature, args); va_end(args); return u; }
#ifndef MPV
#define MPV 1
#endif
void h_pic_alloc(void)
{
    VIN(uint16_t, align); VIN(int, hsize); VIN(int, vsize); VIN(int8_t, ahm);
    VIN_ARR(uint8_t, marg, 4); VIN_ARR(uint8_t, hsub, 4); VIN_ARR(uint8_t, vsub, 4); VIN_ARR(uint8_t, mps, 4);
    VASSUME(align <= 64 && hsize < (1 << 13) && vsize < (1 << 13));
    for (int p = 0; p < 4; p++) {
        VASSUME(marg[p] < 64 && (hsub[p] == 1 || hsub[p] == 2 || hsub[p] == 4) && (vsub[p] == 1 || vsub[p] == 2 || vsub[p] == 4) && mps[p] >= 1 && mps[p] <= 16);
        g_names[p][0] = (char)('a' + p); g_names[p][1] = 0; g_mp[p].chroma = g_names[p]; g_mp[p].hsub = hsub[p]; g_mp[p].vsub = vsub[p]; g_mp[p].macropixel_size = mps[p]; g_mps[p] = &g_mp[p];
    }
    g_umgr.umem_alloc = stub_umem_alloc; g_umgr.umem_free = stub_umem_free;
    g_mm.hmprepend = marg[0]; g_mm.hmappend = marg[1]; g_mm.vprepend = marg[2]; g_mm.vappend = marg[3]; g_mm.align = align; g_mm.align_hmoffset = ahm;
    g_mm.umem_mgr = &g_umgr; g_mm.common_mgr.macropixel = MPV; g_mm.common_mgr.nb_planes = NPL; g_mm.common_mgr.planes = g_mps;
    g_mm.common_mgr.mgr.signature = UBUF_ALLOC_PICTURE;
    g_mm.ubuf_pool.alloc_cb = stub_obj_alloc; g_mm.ubuf_pool.free_cb = stub_obj_free; g_mm.shared_pool.alloc_cb = stub_sh_alloc; g_mm.shared_pool.free_cb = stub_sh_free;
    g_umem_live = g_obj_live = g_sh_live = 0;
    struct ubuf *u = call_alloc(&g_mm.common_mgr.mgr, UBUF_ALLOC_PICTURE, hsize, vsize);
    if (u == NULL) { VPOST(g_umem_live == 0 && g_obj_live == 0 && g_sh_live == 0); }
    else {
        struct ubuf_pic_common *c = ubuf_pic_common_from_ubuf(u);
        VPOST(hsize > 0 && vsize > 0 && g_umem_live == 1 && g_obj_live == 1 && g_sh_live == 1 && g_shared.refcount == 1);
        VPOST(c->hmsize == (size_t)hsize / MPV && c->vsize == (size_t)vsize && c->hmprepend == marg[0] && c->hmappend == marg[1] && c->vprepend == marg[2] && c->vappend == marg[3]);
        size_t HM = (size_t)marg[0] + c->hmsize + marg[1], V = (size_t)marg[2] + c->vsize + marg[3];
        bool ok = true;
        for (int p = 0; p < NPL; p++) {
            uint8_t *b = c->planes[p].buffer; size_t stride = c->planes[p].stride;
            size_t row = HM / hsub[p] * mps[p], lines = V / vsub[p];
            if (b < g_area || stride < row) ok = false;
            uint8_t *end = b + lines * stride;
            uint8_t *limit = p + 1 < NPL ? c->planes[p + 1].buffer : g_area + g_asked;
            if (end > limit) ok = false;
        }
        VPOST(ok);
    }
    VCANARY();
}
#endif

/* ---- write mapping on a buffer that comes from the REAL allocator (C02: "a writable mapping is granted only while the memory
 * area has a single owner"): fresh buffer => granted; a second owner taken the way ubuf_block_mem_alloc_from_pic / _from_sound
 * does it (get_shared + ubuf_mem_shared_use, no dup involved) => refused; owner gone => granted again.  (The pic_mem_write unit
 * states the same from a hand-built structure; this one also sees whatever the allocator initialises.) */
static int call_ctl(struct ubuf *ubuf, int command, ...)
{
    va_list args; va_start(args, command);
#ifdef SOUND
    int ret = ubuf_sound_mem_control(ubuf, command, args);
#else
    int ret = ubuf_pic_mem_control(ubuf, command, args);
#endif
    va_end(args);
    return ret;
}
void h_alloc_write(void)
{
    VIN(uint8_t, sz);
    VASSUME(sz >= 1 && sz <= 16);
    for (int p = 0; p < 4; p++) { g_names[p][0] = (char)('a' + p); g_names[p][1] = 0; g_mps[p] = &g_mp[p]; }
    g_umgr.umem_alloc = stub_umem_alloc; g_umgr.umem_free = stub_umem_free;
    g_mm.umem_mgr = &g_umgr; g_mm.align = 0;
    g_mm.ubuf_pool.alloc_cb = stub_obj_alloc; g_mm.ubuf_pool.free_cb = stub_obj_free; g_mm.shared_pool.alloc_cb = stub_sh_alloc; g_mm.shared_pool.free_cb = stub_sh_free;
    g_umem_live = g_obj_live = g_sh_live = 0;
    uint8_t *w = NULL;
#ifdef SOUND
    g_mp[0].channel = g_names[0]; g_mm.common_mgr.sample_size = 1; g_mm.common_mgr.nb_planes = 1; g_mm.common_mgr.planes = g_mps;
    g_mm.common_mgr.mgr.signature = UBUF_ALLOC_SOUND; g_mm.common_mgr.mgr.ubuf_control = ubuf_sound_mem_control;
    struct ubuf *u = call_alloc(&g_mm.common_mgr.mgr, UBUF_ALLOC_SOUND, (int)sz);
#define AW_WRITE(u_) call_ctl(u_, UBUF_WRITE_SOUND_PLANE, g_names[0], 0, -1, &w)
#define AW_UNMAP(u_) call_ctl(u_, UBUF_UNMAP_SOUND_PLANE, g_names[0], 0, -1)
#define AW_SHARED(u_, sh, o, z) ubuf_sound_mem_get_shared(u_, g_names[0], sh, o, z)
#else
    g_mp[0].chroma = g_names[0]; g_mp[0].hsub = 1; g_mp[0].vsub = 1; g_mp[0].macropixel_size = 1;
    g_mm.hmprepend = g_mm.hmappend = g_mm.vprepend = g_mm.vappend = 0; g_mm.align_hmoffset = 0;
    g_mm.common_mgr.macropixel = 1; g_mm.common_mgr.nb_planes = 1; g_mm.common_mgr.planes = g_mps;
    g_mm.common_mgr.mgr.signature = UBUF_ALLOC_PICTURE; g_mm.common_mgr.mgr.ubuf_control = ubuf_pic_mem_control;
    struct ubuf *u = call_alloc(&g_mm.common_mgr.mgr, UBUF_ALLOC_PICTURE, (int)sz, 2);
#define AW_WRITE(u_) call_ctl(u_, UBUF_WRITE_PICTURE_PLANE, g_names[0], 0, 0, -1, -1, &w)
#define AW_UNMAP(u_) call_ctl(u_, UBUF_UNMAP_PICTURE_PLANE, g_names[0], 0, 0, -1, -1)
#define AW_SHARED(u_, sh, o, z) ubuf_pic_mem_get_shared(u_, g_names[0], sh, o, z)
#endif
    if (u != NULL) {
        VPOST(AW_WRITE(u) == UBASE_ERR_NONE);                               /* fresh buffer: single owner */
        AW_UNMAP(u);
        struct ubuf_mem_shared *sh = NULL; size_t off = 0, sz2 = 0;
        int rs = AW_SHARED(u, &sh, &off, &sz2);
        VPOST(rs == UBASE_ERR_NONE && sh == &g_shared);
        ubuf_mem_shared_use(sh);                                            /* a block buffer now shares the plane */
        VPOST(AW_WRITE(u) == UBASE_ERR_BUSY);
        bool last = ubuf_mem_shared_release(sh);
        VPOST(!last && AW_WRITE(u) == UBASE_ERR_NONE);
    }
    VCANARY();
}
#ifdef VENTRY
VMAIN(VENTRY)
#endif
