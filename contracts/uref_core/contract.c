/* Contract unit: include/upipe/uref.h ownership functions  (property C01; "duplicating the buffer changes none of the
 * dates" of C11; "uref_dup duplicates the dictionary" of C10)
 *
 * Managers are stubs with live counters; uref structures come from a RECYCLING allocator: the structure handed out
 * still carries the fields of its previous life (a stale ubuf pointer to a buffer that now belongs to someone else, a
 * stale dictionary pointer) — what upool does and what hides missing initialisations from allocator-level tools.
 *   uref_free      : releases the buffer, the dictionary and the structure, each exactly once;
 *   uref_dup       : NULL and nothing taken or released that was not given back (in particular the stale pointers of the
 *                    recycled structure are never released), the source untouched; or a new uref whose eight scalar
 *                    fields equal the source's, whose dictionary is a duplicate (same content id) iff the source has
 *                    one and whose buffer is a duplicate iff the source has one;
 *   uref_attach/detach_ubuf: the previous buffer is released exactly once / handed to the caller, never both.
 * Allocation failures of the uref, dictionary and buffer managers are explored on every path.
 */
#include <upipe/ubase.h>
#include <upipe/uref.h>
#include <upipe/ubuf.h>
#include <upipe/udict.h>
#include "vspec.h"
#define VSTUB_NO_UDICT_INLINE
#include "vstub_choice.h"

static struct uref_mgr g_umgr; static struct udict_mgr g_dmgr; static struct ubuf_mgr g_bmgr;
static struct uref g_src, g_new; static struct udict g_sdict, g_ndict; static struct ubuf g_sbuf, g_nbuf, g_stale_buf; static struct udict g_stale_dict;
static int g_uref_live, g_dict_live, g_buf_live, g_stale_buf_freed, g_stale_dict_freed, g_src_freed, g_sbuf_freed, g_sdict_freed, g_unknown_free;
static int g_free_seq, g_seq_buf, g_seq_dict, g_seq_uref;
static int g_sdict_id, g_ndict_id;
static struct uref *stub_alloc_recycled(struct uref_mgr *mgr)
{
    if (VS_CHOICE(uref_alloc_fails) & 1) return NULL;
    /* recycled structure: fields left over from its previous life */
    g_new.mgr = mgr; g_new.ubuf = &g_stale_buf; g_new.udict = &g_stale_dict;
    g_new.flags = VS_CHOICE(j0); g_new.date_sys = VS_CHOICE(j1); g_new.priv = VS_CHOICE(j2);
    g_uref_live++;
    return &g_new;
}
static void stub_uref_free2(struct uref *u) { g_uref_live--; g_seq_uref = ++g_free_seq; if (u == &g_src) g_src_freed++; }
static struct udict *stub_dalloc(struct udict_mgr *m, size_t s) { return NULL; }
static void stub_dfree(struct udict *d)
{
    g_seq_dict = ++g_free_seq;
    if (d == &g_stale_dict) g_stale_dict_freed++; else if (d == &g_sdict) { g_sdict_freed++; g_dict_live--; } else if (d == &g_ndict) g_dict_live--; else g_unknown_free++;
}
static int stub_dcontrol(struct udict *d, int command, va_list args)
{
    if (command == UDICT_DUP) {
        struct udict **p = va_arg(args, struct udict **);
        if (VS_CHOICE(udict_dup_fails) & 1) return UBASE_ERR_ALLOC;
        g_ndict.mgr = &g_dmgr; g_ndict_id = g_sdict_id; g_dict_live++; *p = &g_ndict;
        return UBASE_ERR_NONE;
    }
    return UBASE_ERR_UNHANDLED;
}
static int stub_dmgr_control(struct udict_mgr *m, int command, va_list args) { return UBASE_ERR_UNHANDLED; }
static void stub_bfree(struct ubuf *b)
{
    g_seq_buf = ++g_free_seq;
    if (b == &g_stale_buf) g_stale_buf_freed++; else if (b == &g_sbuf) { g_sbuf_freed++; g_buf_live--; } else if (b == &g_nbuf) g_buf_live--; else g_unknown_free++;
}
static int stub_bcontrol(struct ubuf *b, int command, va_list args)
{
    if (command == UBUF_DUP) {
        struct ubuf **p = va_arg(args, struct ubuf **);
        if (VS_CHOICE(ubuf_dup_fails) & 1) return UBASE_ERR_ALLOC;
        g_nbuf.mgr = &g_bmgr; g_buf_live++; *p = &g_nbuf;
        return UBASE_ERR_NONE;
    }
    return UBASE_ERR_UNHANDLED;
}
#ifndef HAS_DICT
#define HAS_DICT 1
#endif
#ifndef HAS_BUF
#define HAS_BUF 1
#endif
#define BUILD() \
    g_umgr.uref_alloc = stub_alloc_recycled; g_umgr.uref_free = stub_uref_free2; g_umgr.udict_mgr = &g_dmgr; \
    g_dmgr.udict_alloc = stub_dalloc; g_dmgr.udict_control = stub_dcontrol; g_dmgr.udict_free = stub_dfree; g_dmgr.udict_mgr_control = stub_dmgr_control; \
    g_bmgr.ubuf_control = stub_bcontrol; g_bmgr.ubuf_free = stub_bfree; \
    g_stale_buf.mgr = &g_bmgr; g_stale_dict.mgr = &g_dmgr; g_sbuf.mgr = &g_bmgr; g_sdict.mgr = &g_dmgr; \
    VIN_ARR(uint64_t, f, 8); VIN(int, did); \
    g_src.mgr = &g_umgr; uchain_init(&g_src.uchain); g_src.ubuf = HAS_BUF ? &g_sbuf : NULL; g_src.udict = HAS_DICT ? &g_sdict : NULL; \
    g_src.flags = f[0]; g_src.date_sys = f[1]; g_src.date_prog = f[2]; g_src.date_orig = f[3]; \
    g_src.dts_pts_delay = f[4]; g_src.cr_dts_delay = f[5]; g_src.rap_cr_delay = f[6]; g_src.priv = f[7]; g_sdict_id = did; \
    g_uref_live = 1; g_dict_live = HAS_DICT; g_buf_live = HAS_BUF; g_free_seq = 0; \
    g_stale_buf_freed = g_stale_dict_freed = g_src_freed = g_sbuf_freed = g_sdict_freed = g_unknown_free = 0

void h_uref_dup(void)
{
    BUILD();
    struct uref *n = uref_dup(&g_src);
    /* the recycled structure's left-overs are never released; the source is untouched */
    VPOST(g_stale_buf_freed == 0 && g_stale_dict_freed == 0 && g_unknown_free == 0 && g_src_freed == 0 && g_sbuf_freed == 0 && g_sdict_freed == 0);
    VPOST(g_src.ubuf == (HAS_BUF ? &g_sbuf : NULL) && g_src.udict == (HAS_DICT ? &g_sdict : NULL));
    if (n == NULL) {
        VPOST(g_uref_live == 1 && g_dict_live == HAS_DICT && g_buf_live == HAS_BUF);        /* everything taken was given back */
    } else {
        VPOST(n == &g_new && g_uref_live == 2 && g_dict_live == 2 * HAS_DICT && g_buf_live == 2 * HAS_BUF);
        VPOST(n->flags == f[0] && n->date_sys == f[1] && n->date_prog == f[2] && n->date_orig == f[3] &&
              n->dts_pts_delay == f[4] && n->cr_dts_delay == f[5] && n->rap_cr_delay == f[6] && n->priv == f[7]);
        VPOST(n->udict == (HAS_DICT ? &g_ndict : NULL) && (!HAS_DICT || g_ndict_id == did) && n->ubuf == (HAS_BUF ? &g_nbuf : NULL));
    }
    VCANARY();
}
void h_uref_free(void)
{
    BUILD();
    uref_free(&g_src);
    VPOST(g_src_freed == 1 && g_sbuf_freed == HAS_BUF && g_sdict_freed == HAS_DICT && g_unknown_free == 0 && g_stale_buf_freed == 0);
    VPOST(g_uref_live == 0 && g_dict_live == 0 && g_buf_live == 0);
    VPOST((!HAS_BUF || g_seq_buf < g_seq_uref) && (!HAS_DICT || g_seq_dict < g_seq_uref));      /* the structure goes last */
    VCANARY();
}
void h_uref_attach(void)
{
    BUILD();
    g_nbuf.mgr = &g_bmgr; g_buf_live++;
    uref_attach_ubuf(&g_src, &g_nbuf);
    VPOST(g_src.ubuf == &g_nbuf && g_sbuf_freed == HAS_BUF && g_buf_live == 1 && g_unknown_free == 0);
    struct ubuf *d = uref_detach_ubuf(&g_src);
    VPOST(d == &g_nbuf && g_src.ubuf == NULL && g_buf_live == 1);
    VCANARY();
}
#ifdef VENTRY
VMAIN(VENTRY)
#endif
