/* Contract unit: lib/upipe-framers/upipe_h26x_common.c (included whole): upipe_h26xf_decaps_nal / upipe_h26xf_encaps_nal
 * (property C17: "converting a frame between NAL encapsulations keeps every NAL unit's payload ..., and converting back
 *  reproduces the original bytes when these used 4-byte start codes or length prefixes"; sizes that overflow a length prefix)
 *
 * The two static functions are verified against the byte-string CONTRACT of the block operations they use (extract,
 * delete, insert, alloc_from_opaque, dup, size: the C03 contracts with the view replaced by a byte array of at most
 * FMAX octets) — the block functions are renamed to abstract stubs before the file is included.
 *   decaps(enc): removes exactly the prefix of `enc` at nal_offset (Annex B: 3 octets when the third is 01, else 4;
 *                LENGTHn: n octets; NALU: nothing), nal_size and the offset correction decrease by that much, every other
 *                octet keeps its value (ghost index);
 *   encaps(enc): inserts at nal_offset the prefix of `enc` (00 00 00 01, or nal_size big-endian on n octets), nal_size and
 *                the correction increase by its length; a nal_size that does not fit the prefix is refused with the frame
 *                unchanged; every other octet keeps its value;
 *   round trip : prefix_A + payload, decaps(A); encaps(B); decaps(B); encaps(A) gives back the original octets for
 *                A in {Annex B with 4-octet start code, LENGTH4} and any B whose prefix can hold the size.
 */
#include <upipe/ubase.h>
#include <upipe/uref.h>
#include <upipe/ubuf.h>
#include <upipe/ubuf_block.h>
#include <upipe/uref_attr.h>
#include <string.h>
/* attributes the frame conversion reads and writes: the numbered attribute h26x.n[i] (offset of NAL i+1) is an array
 * indexed by i — the name formatting (vsnprintf) is dropped — and b.header is one cell; every other attribute is absent */
#define NALMAX 5
static uint64_t g_naloff[NALMAX]; static bool g_naloff_set[NALMAX]; static uint64_t g_hdr; static bool g_hdr_set; static int g_attr_bad;
static int stub_num_get(struct uref *u, uint64_t *p, uint64_t idx) { if (idx >= NALMAX || !g_naloff_set[idx]) return UBASE_ERR_INVALID; *p = g_naloff[idx]; return UBASE_ERR_NONE; }
static int stub_num_set(struct uref *u, uint64_t v, uint64_t idx) { if (idx >= NALMAX) { g_attr_bad++; return UBASE_ERR_INVALID; } g_naloff[idx] = v; g_naloff_set[idx] = true; return UBASE_ERR_NONE; }
static int stub_named_get(struct uref *u, uint64_t *p, const char *name) { if (strcmp(name, "b.header") || !g_hdr_set) return UBASE_ERR_INVALID; *p = g_hdr; return UBASE_ERR_NONE; }
static int stub_named_set(struct uref *u, uint64_t v, const char *name) { if (strcmp(name, "b.header")) { g_attr_bad++; return UBASE_ERR_INVALID; } g_hdr = v; g_hdr_set = true; return UBASE_ERR_NONE; }
#define uref_attr_get_unsigned_va(u, p, t, fmt, idx) stub_num_get(u, p, idx)
#define uref_attr_set_unsigned_va(u, v, t, fmt, idx) stub_num_set(u, v, idx)
#define uref_attr_get_unsigned(u, p, t, name) stub_named_get(u, p, name)
#define uref_attr_set_unsigned(u, v, t, name) stub_named_set(u, v, name)
#include <upipe/uref_block.h>
#include <upipe/uref_block_flow.h>
#define FMAX 24
static struct { uint8_t b[FMAX]; size_t len; } g_frame;          /* the frame's byte string */
static struct { uint8_t b[4]; size_t len; } g_ins;               /* a block holding a prefix to insert */
static struct ubuf g_ins_ubuf, g_annexb_ubuf;
static struct uref g_uref;
static bool g_fail_alloc, g_fail_insert; static int g_ops_bad;
static int stub_extract(struct uref *u, int offset, int size, uint8_t *buf)
{
    if (offset < 0 || size < 0 || (size_t)offset + size > g_frame.len) return UBASE_ERR_INVALID;
    for (int k = 0; k < FMAX; k++) { if (k >= size) break; buf[k] = g_frame.b[offset + k]; }
    return UBASE_ERR_NONE;
}
static int stub_delete(struct uref *u, int offset, int size)
{
    if (offset < 0 || size < 0 || (size_t)offset + size > g_frame.len) return UBASE_ERR_INVALID;
    for (int k = 0; k < FMAX; k++) { if ((size_t)k + offset + size >= g_frame.len) break; g_frame.b[offset + k] = g_frame.b[offset + size + k]; }
    g_frame.len -= size;
    return UBASE_ERR_NONE;
}
static int stub_insert(struct uref *u, int offset, struct ubuf *insert)
{
    if (insert != &g_ins_ubuf) { g_ops_bad++; return UBASE_ERR_INVALID; }
    if (offset < 0 || (size_t)offset > g_frame.len || g_frame.len + g_ins.len > FMAX || g_fail_insert) return UBASE_ERR_INVALID;
    for (int k = FMAX - 1; k >= 0; k--) { if ((size_t)k >= (size_t)offset + g_ins.len && (size_t)k < g_frame.len + g_ins.len) g_frame.b[k] = g_frame.b[k - g_ins.len]; }
    for (int k = 0; k < 4; k++) { if ((size_t)k >= g_ins.len) break; g_frame.b[offset + k] = g_ins.b[k]; }
    g_frame.len += g_ins.len;
    return UBASE_ERR_NONE;
}
static struct ubuf *stub_from_opaque(struct ubuf_mgr *mgr, const uint8_t *p, size_t size)
{
    if (g_fail_alloc || size > 4) return NULL;
    for (int k = 0; k < 4; k++) { if ((size_t)k >= size) break; g_ins.b[k] = p[k]; }
    g_ins.len = size;
    return &g_ins_ubuf;
}
static struct ubuf *stub_dup_hdr(struct ubuf *ubuf)
{
    if (g_fail_alloc || ubuf != &g_annexb_ubuf) return NULL;
    g_ins.b[0] = 0; g_ins.b[1] = 0; g_ins.b[2] = 0; g_ins.b[3] = 1; g_ins.len = 4;
    return &g_ins_ubuf;
}
static int stub_frame_size(struct uref *u, size_t *size_p) { *size_p = g_frame.len; return UBASE_ERR_NONE; }
static int stub_blk_size(struct ubuf *ubuf, size_t *size_p) { if (ubuf != &g_ins_ubuf) return UBASE_ERR_INVALID; *size_p = g_ins.len; return UBASE_ERR_NONE; }
#define uref_block_extract stub_extract
#define uref_block_delete stub_delete
#define uref_block_insert stub_insert
#define ubuf_block_alloc_from_opaque stub_from_opaque
#define ubuf_dup stub_dup_hdr
#define ubuf_block_size stub_blk_size
#define uref_block_size stub_frame_size
#include "lib/upipe-framers/upipe_h26x_common.c"
#include "vspec.h"

#define BUILD_FRAME() \
    VIN_ARR(uint8_t, bytes, FMAX); VIN(uint8_t, flen); VASSUME(flen <= FMAX - 4); \
    for (int k = 0; k < FMAX; k++) g_frame.b[k] = bytes[k]; g_frame.len = flen; \
    VIN(uint8_t, fa); VIN(uint8_t, fi); g_fail_alloc = (fa & 1) != 0; g_fail_insert = (fi & 1) != 0; g_ops_bad = 0; \
    VIN(uint8_t, gi)
static size_t prefix_len(int enc, uint8_t third) { return enc == UREF_H26X_ENCAPS_NALU ? 0 : enc == UREF_H26X_ENCAPS_ANNEXB ? (third == 1 ? 3 : 4) : enc == UREF_H26X_ENCAPS_LENGTH1 ? 1 : enc == UREF_H26X_ENCAPS_LENGTH2 ? 2 : 4; }

void h_decaps(void)
{
    BUILD_FRAME();
    VIN(uint8_t, off); VIN(int, encv); VIN(uint64_t, nal_size); VIN(int64_t, corr);
    VASSUME(encv >= UREF_H26X_ENCAPS_NALU && encv <= UREF_H26X_ENCAPS_LENGTH4 && encv != UREF_H26X_ENCAPS_LENGTH_UNKNOWN && off <= flen && nal_size >= 4 && corr > -1000 && corr < 1000);
    enum uref_h26x_encaps enc = (enum uref_h26x_encaps)encv;
    /* an Annex B unit starts with 00 00 (the code asserts it) */
    if (enc == UREF_H26X_ENCAPS_ANNEXB) VASSUME(off + 3 <= flen && bytes[off] == 0 && bytes[off + 1] == 0);
    uint64_t ns = nal_size; int64_t c = corr;
    int ret = upipe_h26xf_decaps_nal(&g_uref, off, &ns, enc, &c);
    size_t k = prefix_len(enc, off + 2 < FMAX ? bytes[off + 2] : 0);
    bool fits = (size_t)off + k <= flen;
    VPOST((ret == UBASE_ERR_NONE) == fits);
    if (ret == UBASE_ERR_NONE) {
        VPOST(g_frame.len == flen - k && ns == nal_size - k && c == corr - (int64_t)k);
        VPOST(gi >= g_frame.len || g_frame.b[gi] == (gi < off ? bytes[gi] : bytes[gi + k]));       /* only the prefix is gone */
    } else {
        VPOST(g_frame.len == flen && (gi >= flen || g_frame.b[gi] == bytes[gi]) && ns == nal_size && c == corr);
    }
    VCANARY();
}
void h_encaps(void)
{
    BUILD_FRAME();
    VIN(uint8_t, off); VIN(int, encv); VIN(uint64_t, nal_size); VIN(int64_t, corr);
    VASSUME(encv >= UREF_H26X_ENCAPS_NALU && encv <= UREF_H26X_ENCAPS_LENGTH4 && encv != UREF_H26X_ENCAPS_LENGTH_UNKNOWN && off <= flen && corr > -1000 && corr < 1000);
    enum uref_h26x_encaps enc = (enum uref_h26x_encaps)encv;
    uint64_t ns = nal_size; int64_t c = corr;
    int ret = upipe_h26xf_encaps_nal(&g_uref, off, &ns, enc, NULL, &g_annexb_ubuf, &c);
    size_t k = enc == UREF_H26X_ENCAPS_NALU ? 0 : enc == UREF_H26X_ENCAPS_ANNEXB ? 4 : enc == UREF_H26X_ENCAPS_LENGTH1 ? 1 : enc == UREF_H26X_ENCAPS_LENGTH2 ? 2 : 4;
    bool size_fits = enc == UREF_H26X_ENCAPS_LENGTH1 ? nal_size <= 0xff : enc == UREF_H26X_ENCAPS_LENGTH2 ? nal_size <= 0xffff : enc == UREF_H26X_ENCAPS_LENGTH4 ? nal_size <= 0xffffffffu : true;
    VPOST(g_ops_bad == 0);
    VPOST(ret != UBASE_ERR_NONE || size_fits);                       /* a size that overflows the prefix is refused */
    VPOST(!size_fits || enc == UREF_H26X_ENCAPS_NALU || g_fail_alloc || g_fail_insert || ret == UBASE_ERR_NONE);
    if (ret == UBASE_ERR_NONE) {
        VPOST(g_frame.len == flen + k && ns == nal_size + k && c == corr + (int64_t)k);
        uint8_t expect = 0;
        if (gi >= FMAX) { }
        else if (gi >= off && gi < off + k) {
            size_t j = gi - off;
            expect = enc == UREF_H26X_ENCAPS_ANNEXB ? (j == 3 ? 1 : 0) : (uint8_t)(nal_size >> (8 * (k - 1 - j)));
        } else expect = gi < off ? bytes[gi] : bytes[gi - k];
        VPOST(gi >= g_frame.len || g_frame.b[gi] == expect);
    } else {
        VPOST(g_frame.len == flen && (gi >= flen || g_frame.b[gi] == bytes[gi]) && ns == nal_size && c == corr);   /* refused: nothing changed */
    }
    VCANARY();
}
/* A -> B -> A on one NAL unit */
void h_roundtrip(void)
{
    BUILD_FRAME();
    VIN(uint8_t, a4); VIN(int, bv); VIN(uint8_t, plen);
    VASSUME(bv >= UREF_H26X_ENCAPS_ANNEXB && bv <= UREF_H26X_ENCAPS_LENGTH4 && bv != UREF_H26X_ENCAPS_LENGTH_UNKNOWN && plen >= 1 && plen <= 8 && !g_fail_alloc && !g_fail_insert);
    enum uref_h26x_encaps A = (a4 & 1) ? UREF_H26X_ENCAPS_ANNEXB : UREF_H26X_ENCAPS_LENGTH4, B = (enum uref_h26x_encaps)bv;
    /* the frame is prefix_A + payload of plen octets */
    if (A == UREF_H26X_ENCAPS_ANNEXB) { g_frame.b[0] = 0; g_frame.b[1] = 0; g_frame.b[2] = 0; g_frame.b[3] = 1; }
    else { g_frame.b[0] = 0; g_frame.b[1] = 0; g_frame.b[2] = 0; g_frame.b[3] = plen; }
    g_frame.len = 4 + (size_t)plen;
    uint8_t orig[FMAX]; for (int k = 0; k < FMAX; k++) orig[k] = g_frame.b[k];
    uint64_t ns = 4 + (uint64_t)plen; int64_t c = 0;
    int r1 = upipe_h26xf_decaps_nal(&g_uref, 0, &ns, A, &c);
    int r2 = upipe_h26xf_encaps_nal(&g_uref, 0, &ns, B, NULL, &g_annexb_ubuf, &c);
    int r3 = upipe_h26xf_decaps_nal(&g_uref, 0, &ns, B, &c);
    int r4 = upipe_h26xf_encaps_nal(&g_uref, 0, &ns, A, NULL, &g_annexb_ubuf, &c);
    VPOST(r1 == UBASE_ERR_NONE && r2 == UBASE_ERR_NONE && r3 == UBASE_ERR_NONE && r4 == UBASE_ERR_NONE);
    VPOST(g_frame.len == 4 + (size_t)plen && ns == 4 + (uint64_t)plen && c == 0);
    VPOST(gi >= g_frame.len || g_frame.b[gi] == orig[gi]);
    VCANARY();
}

/* ---- the frame loop: upipe_h26xf_convert_frame over a frame of two NAL units ----------------------------------------
 * frame = prefix_A(n1) payload1 prefix_A(n2) payload2, attribute h26x.n[0] = offset of the second unit.  Converting A -> B:
 *   accepted ==> frame' = prefix_B(n1) payload1 prefix_B(n2) payload2 (every payload octet, in order: ghost index),
 *                h26x.n[0] is the new offset of the second unit;
 *   then B -> A gives back the original octets when A is Annex B with 4-octet start codes or LENGTH4. */
static size_t put_prefix(uint8_t *b, size_t at, int enc, size_t n, bool sc3)
{
    if (enc == UREF_H26X_ENCAPS_NALU) return 0;
    if (enc == UREF_H26X_ENCAPS_ANNEXB) { if (sc3) { b[at] = 0; b[at + 1] = 0; b[at + 2] = 1; return 3; } b[at] = 0; b[at + 1] = 0; b[at + 2] = 0; b[at + 3] = 1; return 4; }
    size_t k = enc == UREF_H26X_ENCAPS_LENGTH1 ? 1 : enc == UREF_H26X_ENCAPS_LENGTH2 ? 2 : 4;
    for (size_t j = 0; j < 4; j++) { if (j >= k) break; b[at + j] = (uint8_t)(n >> (8 * (k - 1 - j))); }
    return k;
}
#ifndef PMAX
#define PMAX 3
#endif
#ifndef NNAL
#define NNAL 2
#endif
void h_convert(void)
{
    BUILD_FRAME();
    VIN(int, av); VIN(int, bv); VIN_ARR(uint8_t, nsz, 4); VIN_ARR(uint8_t, sc3, 4); VIN_ARR(uint8_t, pay, 4 * PMAX);
#ifdef AENC
    VASSUME(av == AENC);           /* case split on the input encapsulation (one group per value) */
#endif
    VASSUME(av >= UREF_H26X_ENCAPS_NALU && av <= UREF_H26X_ENCAPS_LENGTH4 && av != UREF_H26X_ENCAPS_LENGTH_UNKNOWN);
#ifdef BENC
    VASSUME(bv == BENC);
#endif
    VASSUME(bv >= UREF_H26X_ENCAPS_NALU && bv <= UREF_H26X_ENCAPS_LENGTH4 && bv != UREF_H26X_ENCAPS_LENGTH_UNKNOWN);
    VASSUME(!g_fail_alloc && !g_fail_insert);
    VIN(uint8_t, gq); VIN(uint8_t, gq2); VASSUME(gq >= 1 && gq < NNAL && gq2 >= 1 && gq2 < NNAL);          /* ghost unit indices (drawn before the call so that a replay knows them) */
    for (int q = 0; q < NNAL; q++) VASSUME(nsz[q] >= 1 && nsz[q] <= PMAX);
#ifdef AENC
#ifdef BENC
    enum uref_h26x_encaps A = (enum uref_h26x_encaps)AENC, B = (enum uref_h26x_encaps)BENC;
#else
    enum uref_h26x_encaps A = (enum uref_h26x_encaps)AENC, B = (enum uref_h26x_encaps)bv;
#endif
#else
    enum uref_h26x_encaps A = (enum uref_h26x_encaps)av, B = (enum uref_h26x_encaps)bv;
#endif
    /* frame = NNAL units, each prefix_A + payload (an Annex B payload does not start with 00 00 0x: a start code is recognised by its octets) */
    size_t at = 0, off[4] = { 0, 0, 0, 0 }; bool all_sc4 = true;
    for (int q = 0; q < NNAL; q++) {
        off[q] = at;
        at += put_prefix(g_frame.b, at, A, nsz[q], (sc3[q] & 1) != 0);
        if (sc3[q] & 1) all_sc4 = false;
        for (int k = 0; k < PMAX; k++) { if (k >= nsz[q]) break; g_frame.b[at++] = pay[q * PMAX + k]; }
    }
    g_frame.len = at;
    for (int k = 0; k < NALMAX; k++) g_naloff_set[k] = false;
    for (int q = 1; q < NNAL; q++) { g_naloff[q - 1] = off[q]; g_naloff_set[q - 1] = true; }
    g_hdr_set = false; g_attr_bad = 0;
    uint8_t orig[FMAX]; size_t orig_len = g_frame.len; for (int k = 0; k < FMAX; k++) orig[k] = g_frame.b[k];
    int ret = upipe_h26xf_convert_frame(&g_uref, A, B, NULL, &g_annexb_ubuf);
    VPOST(ret == UBASE_ERR_NONE && g_ops_bad == 0 && g_attr_bad == 0);
    /* expected frame */
    uint8_t exp[FMAX]; for (int k = 0; k < FMAX; k++) exp[k] = 0; size_t e = 0, eoff[4] = { 0, 0, 0, 0 };
    if (A == B) { for (int k = 0; k < FMAX; k++) exp[k] = orig[k]; e = orig_len; }
    else {
        for (int q = 0; q < NNAL; q++) {
            eoff[q] = e;
            e += put_prefix(exp, e, B, nsz[q], false);
            for (int k = 0; k < PMAX; k++) { if (k >= nsz[q]) break; exp[e++] = pay[q * PMAX + k]; }
        }
        VPOST(g_naloff_set[gq - 1] && g_naloff[gq - 1] == eoff[gq] && !g_naloff_set[NNAL - 1]);          /* the units are still delimited */
    }
    VPOST(g_frame.len == e);
    VPOST(gi >= e || gi >= FMAX || g_frame.b[gi] == exp[gi]);
#ifdef ROUNDTRIP
    /* and back: original octets when A used 4-octet start codes or length prefixes */
    if (A != B && ((A == UREF_H26X_ENCAPS_ANNEXB && all_sc4) || A == UREF_H26X_ENCAPS_LENGTH4 || A == UREF_H26X_ENCAPS_LENGTH1 || A == UREF_H26X_ENCAPS_LENGTH2)) {
        int r2 = upipe_h26xf_convert_frame(&g_uref, B, A, NULL, &g_annexb_ubuf);
        VPOST(r2 == UBASE_ERR_NONE && g_frame.len == orig_len && g_naloff[gq2 - 1] == off[gq2]);
        VPOST(gi >= orig_len || gi >= FMAX || g_frame.b[gi] == orig[gi]);
    }
#endif
    VCANARY();
}
#ifdef VENTRY
VMAIN(VENTRY)
#endif
