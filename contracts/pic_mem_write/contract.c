/* Contract unit: lib/upipe/ubuf_pic_mem.c and lib/upipe/ubuf_sound_mem.c write mapping  (property C02, picture / sound part)
 *
 * "A writable mapping is granted only while the memory area has a single owner and is refused otherwise."
 * Stated as lemmas over the real control functions, from the state the allocator leaves, so that they hold for any
 * implementation (no assumption on private fields):
 *   L1  one owner (count 1)        : WRITE_*_PLANE on a valid window is granted;
 *   L2  count r > 1                : WRITE_*_PLANE answers UBASE_ERR_BUSY, READ is still granted;
 *   L3  history: granted write, unmap, then the area gets a second owner the way ubuf_block_mem_alloc_from_pic /
 *       _from_sound does it (the real *_mem_get_shared + ubuf_mem_shared_use), then WRITE again : BUSY.
 * The picture/sound is built directly in the state its allocator leaves (one plane, windows symbolic).
 */
#include <upipe/ubase.h>
#include <upipe/upool.h>
static inline void stub_upool_init(struct upool *upool, struct urefcount *refcount, uint16_t length, void *extra,
                                   upool_alloc_cb alloc_cb, upool_free_cb free_cb) { upool->refcount = refcount; upool->alloc_cb = alloc_cb; upool->free_cb = free_cb; }
static inline void *stub_upool_alloc_internal(struct upool *upool) { return upool->alloc_cb(upool); }
static inline void stub_upool_free(struct upool *upool, void *obj) { upool->free_cb(upool, obj); }
static inline void stub_upool_vacuum(struct upool *upool) { }
static inline void stub_upool_clean(struct upool *upool) { }
#define upool_init stub_upool_init
#define upool_alloc_internal stub_upool_alloc_internal
#define upool_free stub_upool_free
#define upool_vacuum stub_upool_vacuum
#define upool_clean stub_upool_clean
#include "lib/upipe/ubuf_mem_common.c"
#ifdef SOUND
#include "lib/upipe/ubuf_sound_mem.c"
#include "lib/upipe/ubuf_sound_common.c"
#else
#include "lib/upipe/ubuf_pic_mem.c"
#include "lib/upipe/ubuf_pic_common.c"
#endif
#include "vspec.h"

static struct ubuf_mem_shared g_shared; static uint8_t g_area[1];
static char g_name[4];
#ifdef SOUND
static struct ubuf_sound_mem_mgr g_mm; static struct ubuf_sound_common_mgr_plane g_mp; static struct ubuf_sound_common_mgr_plane *g_mps[1];
static struct { struct ubuf_sound_mem m; struct ubuf_sound_common_plane slot[1]; } g_obj;
#define MEMCTL ubuf_sound_mem_control
#define WRITE_CMD UBUF_WRITE_SOUND_PLANE
#define READ_CMD UBUF_READ_SOUND_PLANE
#define UNMAP_CMD UBUF_UNMAP_SOUND_PLANE
#define GET_SHARED(u, sh, o, s) ubuf_sound_mem_get_shared(u, g_name, sh, o, s)
#else
static struct ubuf_pic_mem_mgr g_mm; static struct ubuf_pic_common_mgr_plane g_mp; static struct ubuf_pic_common_mgr_plane *g_mps[1];
static struct { struct ubuf_pic_mem m; struct ubuf_pic_common_plane slot[1]; } g_obj;
#define MEMCTL ubuf_pic_mem_control
#define WRITE_CMD UBUF_WRITE_PICTURE_PLANE
#define READ_CMD UBUF_READ_PICTURE_PLANE
#define UNMAP_CMD UBUF_UNMAP_PICTURE_PLANE
#define GET_SHARED(u, sh, o, s) ubuf_pic_mem_get_shared(u, g_name, sh, o, s)
#endif
static int call_ctl(struct ubuf *ubuf, int command, ...)
{
    va_list args; va_start(args, command);
    int ret = MEMCTL(ubuf, command, args);
    va_end(args);
    return ret;
}
static struct ubuf *build(uint32_t refs, uint16_t w, uint16_t h)
{
    g_name[0] = 'y'; g_name[1] = '8'; g_name[2] = 0;
    g_shared.refcount = refs; g_shared.umem.buffer = g_area; g_shared.umem.size = 1;
#ifdef SOUND
    g_mp.channel = g_name; g_mps[0] = &g_mp; g_mm.common_mgr.sample_size = 1; g_mm.common_mgr.nb_planes = 1; g_mm.common_mgr.planes = g_mps;
    g_mm.common_mgr.mgr.signature = UBUF_ALLOC_SOUND; g_mm.common_mgr.mgr.ubuf_control = ubuf_sound_mem_control;
    struct ubuf *ubuf = &g_obj.m.ubuf_sound_common.ubuf; ubuf->mgr = &g_mm.common_mgr.mgr;
    g_obj.m.shared = &g_shared; g_obj.m.readers = 0;
    g_obj.m.ubuf_sound_common.size = w; g_obj.m.ubuf_sound_common.planes[0].buffer = g_area;
#else
    g_mp.chroma = g_name; g_mp.hsub = 1; g_mp.vsub = 1; g_mp.macropixel_size = 1; g_mps[0] = &g_mp;
    g_mm.common_mgr.macropixel = 1; g_mm.common_mgr.nb_planes = 1; g_mm.common_mgr.planes = g_mps;
    g_mm.common_mgr.mgr.signature = UBUF_ALLOC_PICTURE; g_mm.common_mgr.mgr.ubuf_control = ubuf_pic_mem_control;
    struct ubuf *ubuf = &g_obj.m.ubuf_pic_common.ubuf; ubuf->mgr = &g_mm.common_mgr.mgr;
    g_obj.m.shared = &g_shared; g_obj.m.readers = 0;
    g_obj.m.ubuf_pic_common.hmprepend = 0; g_obj.m.ubuf_pic_common.hmappend = 0; g_obj.m.ubuf_pic_common.hmsize = w;
    g_obj.m.ubuf_pic_common.vprepend = 0; g_obj.m.ubuf_pic_common.vappend = 0; g_obj.m.ubuf_pic_common.vsize = h;
    g_obj.m.ubuf_pic_common.planes[0].buffer = g_area; g_obj.m.ubuf_pic_common.planes[0].stride = w;
#endif
    return ubuf;
}
#ifdef SOUND
#define WRITE(u, p) call_ctl(u, WRITE_CMD, g_name, 0, -1, p)
#define READ(u, p) call_ctl(u, READ_CMD, g_name, 0, -1, p)
#define UNMAP(u) call_ctl(u, UNMAP_CMD, g_name, 0, -1)
#else
#define WRITE(u, p) call_ctl(u, WRITE_CMD, g_name, 0, 0, -1, -1, p)
#define READ(u, p) call_ctl(u, READ_CMD, g_name, 0, 0, -1, -1, p)
#define UNMAP(u) call_ctl(u, UNMAP_CMD, g_name, 0, 0, -1, -1)
#endif
void h_write_single(void)
{
    VIN(uint32_t, refs); VIN(uint16_t, w); VIN(uint16_t, h); VASSUME(refs >= 1 && refs < 1000 && w >= 1 && h >= 1);
    struct ubuf *ubuf = build(refs, w, h);
    uint8_t *p = NULL; const uint8_t *q = NULL;
    int r = WRITE(ubuf, &p);
    VPOST(refs == 1 ? r == UBASE_ERR_NONE : r == UBASE_ERR_BUSY);           /* L1, L2 */
    VPOST(g_shared.refcount == refs);
    int rr = READ(ubuf, &q);
    VPOST(rr == UBASE_ERR_NONE);                                             /* reading is always granted */
    VCANARY();
}
void h_write_after_share(void)
{
    VIN(uint16_t, w); VIN(uint16_t, h); VASSUME(w >= 1 && h >= 1);
    struct ubuf *ubuf = build(1, w, h);
    uint8_t *p = NULL;
    int r1 = WRITE(ubuf, &p);
    VPOST(r1 == UBASE_ERR_NONE);
    UNMAP(ubuf);
    /* a block buffer now shares the plane (what ubuf_block_mem_alloc does for ALLOC_FROM_PIC / _FROM_SOUND) */
    struct ubuf_mem_shared *sh = NULL; size_t off = 0, sz = 0;
    int rs = GET_SHARED(ubuf, &sh, &off, &sz);
    VASSUME(rs == UBASE_ERR_NONE && sh != NULL);
    ubuf_mem_shared_use(sh);
    int r2 = WRITE(ubuf, &p);
    VPOST(sh == &g_shared && r2 == UBASE_ERR_BUSY);                          /* L3 */
    /* ... and once the other owner is gone, writing is granted again */
    bool last = ubuf_mem_shared_release(sh);
    int r3 = WRITE(ubuf, &p);
    VPOST(!last && r3 == UBASE_ERR_NONE);
    VCANARY();
}

/* ---- dup: "duplicating a buffer shares its memory" ---------------------------------------------------------------------
 * dup gives a second handle on the same area (owner count 2, same plane pointers and window); while both exist neither may
 * be mapped for writing and both read the same octets; freeing one makes the other writable again and does NOT return the
 * area; freeing the last one returns the area and the shared structure exactly once.  A failed dup changes nothing. */
#ifdef SOUND
static struct { struct ubuf_sound_mem m; struct ubuf_sound_common_plane slot[1]; } g_obj2;
#define OBJ2_UBUF (&g_obj2.m.ubuf_sound_common.ubuf)
#define MEMFREE ubuf_sound_mem_free
#define SAME_WINDOW() (g_obj2.m.ubuf_sound_common.size == g_obj.m.ubuf_sound_common.size && g_obj2.m.ubuf_sound_common.planes[0].buffer == g_obj.m.ubuf_sound_common.planes[0].buffer)
#else
static struct { struct ubuf_pic_mem m; struct ubuf_pic_common_plane slot[1]; } g_obj2;
#define OBJ2_UBUF (&g_obj2.m.ubuf_pic_common.ubuf)
#define MEMFREE ubuf_pic_mem_free
#define SAME_WINDOW() (g_obj2.m.ubuf_pic_common.hmsize == g_obj.m.ubuf_pic_common.hmsize && g_obj2.m.ubuf_pic_common.vsize == g_obj.m.ubuf_pic_common.vsize && \
    g_obj2.m.ubuf_pic_common.hmprepend == g_obj.m.ubuf_pic_common.hmprepend && g_obj2.m.ubuf_pic_common.vprepend == g_obj.m.ubuf_pic_common.vprepend && \
    g_obj2.m.ubuf_pic_common.planes[0].buffer == g_obj.m.ubuf_pic_common.planes[0].buffer && g_obj2.m.ubuf_pic_common.planes[0].stride == g_obj.m.ubuf_pic_common.planes[0].stride)
#endif
static int g_obj_live, g_obj_freed, g_shared_freed, g_umem_freed; static bool g_alloc_fails;
static struct umem_mgr g_umem_mgr;
static void *stub_obj_alloc(struct upool *p) { if (g_alloc_fails || g_obj_live > 0) return NULL; g_obj_live++; OBJ2_UBUF->mgr = &g_mm.common_mgr.mgr; g_obj2.m.readers = 0; g_obj2.m.shared = (struct ubuf_mem_shared *)8; return &g_obj2.m; }
static void stub_obj_free(struct upool *p, void *o) { g_obj_freed++; }
static void stub_shared_free(struct upool *p, void *o) { if (o == &g_shared) g_shared_freed++; }
static void stub_umem_free(struct umem *u) { if (u == &g_shared.umem) g_umem_freed++; }
void h_dup(void)
{
    VIN(uint16_t, w); VIN(uint16_t, h); VIN(uint8_t, af); VASSUME(w >= 1 && h >= 1);
    struct ubuf *ubuf = build(1, w, h);
    g_mm.common_mgr.mgr.ubuf_free = MEMFREE;
    g_mm.ubuf_pool.alloc_cb = stub_obj_alloc; g_mm.ubuf_pool.free_cb = stub_obj_free; g_mm.ubuf_pool.refcount = NULL;
    g_mm.shared_pool.alloc_cb = NULL; g_mm.shared_pool.free_cb = stub_shared_free; g_mm.shared_pool.refcount = NULL;
    g_shared.pool = &g_mm.shared_pool; g_umem_mgr.umem_free = stub_umem_free; g_shared.umem.mgr = &g_umem_mgr;
    g_obj_live = g_obj_freed = g_shared_freed = g_umem_freed = 0; g_alloc_fails = (af & 1) != 0;
    struct ubuf *nu = NULL;
    int r = call_ctl(ubuf, UBUF_DUP, &nu);
    if (r != UBASE_ERR_NONE) {
        VPOST(g_shared.refcount == 1 && g_obj_live == g_obj_freed && g_umem_freed == 0);
    } else {
        VPOST(nu == OBJ2_UBUF && g_shared.refcount == 2 && g_obj2.m.shared == &g_shared && SAME_WINDOW());
        uint8_t *p = NULL; const uint8_t *q1 = NULL, *q2 = NULL;
        VPOST(WRITE(ubuf, &p) == UBASE_ERR_BUSY && WRITE(nu, &p) == UBASE_ERR_BUSY);           /* neither handle may write into the shared area */
        VPOST(READ(ubuf, &q1) == UBASE_ERR_NONE && READ(nu, &q2) == UBASE_ERR_NONE && q1 == q2 && q1 == g_area);
        UNMAP(ubuf); UNMAP(nu);
        VIN(uint8_t, first);
        struct ubuf *a = (first & 1) ? ubuf : nu, *b = (first & 1) ? nu : ubuf;
        MEMFREE(a);
        VPOST(g_shared.refcount == 1 && g_umem_freed == 0 && g_shared_freed == 0 && g_obj_freed == 1);    /* the area stays with the other handle */
        VPOST(WRITE(b, &p) == UBASE_ERR_NONE && p == g_area);                                            /* ... which is its single owner again */
        UNMAP(b);
        MEMFREE(b);
        VPOST(g_umem_freed == 1 && g_shared_freed == 1 && g_obj_freed == 2);                              /* last holder returns the area, once */
    }
    VCANARY();
}

#ifndef SOUND
/* ---- split into fields (UBUF_PICTURE_SPLIT_FIELDS -> ubuf_pic_common_split_fields), property C19 for the two field buffers:
 * "any plane window accepted for mapping lies entirely inside the memory allocated for that plane" and the lines of a field
 * are the lines of that parity of the picture: field f, line r, column c is the picture's pixel (2r + f, c).
 * One plane (vsub 1), symbolic line count, vertical margins and line length; the plane lives in a real 96-octet area.
 * A failed duplication (second dup) must not be dereferenced and leaves nothing allocated (C01). */
static struct { struct ubuf_pic_mem m; struct ubuf_pic_common_plane slot[1]; } g_obj3;
static uint8_t g_bigarea[96];
static int g_dups;
static void *stub_obj_alloc2(struct upool *p)
{
    if (g_alloc_fails && g_dups >= 1) return NULL;                      /* the second structure cannot be had */
    if (g_dups >= 2) return NULL;
    struct ubuf_pic_mem *m = g_dups == 0 ? &g_obj2.m : &g_obj3.m; g_dups++; g_obj_live++;
    m->ubuf_pic_common.ubuf.mgr = &g_mm.common_mgr.mgr; m->readers = 0; m->shared = (struct ubuf_mem_shared *)8;
    return m;
}
#ifdef NO_ALLOC_FAILURE
#define SPLIT_ALLOC_OK(x) (((x) & 1) == 0)
#else
#define SPLIT_ALLOC_OK(x) true
#endif
void h_split_fields(void)
{
    VIN(uint8_t, sw); VIN(uint8_t, lines); VIN(uint8_t, vpre); VIN(uint8_t, vapp); VIN(uint8_t, saf); VIN(uint8_t, gr); VIN(uint8_t, gc); VIN(uint8_t, gf);
    VASSUME(SPLIT_ALLOC_OK(saf) && sw >= 1 && sw <= 4 && lines >= 2 && lines <= 8 && lines % 2 == 0 && vpre <= 4 && vapp <= 4 && (size_t)(vpre + lines + vapp) * sw <= sizeof(g_bigarea));
    struct ubuf *ubuf = build(1, sw, lines);
    g_shared.umem.buffer = g_bigarea; g_shared.umem.size = (size_t)(vpre + lines + vapp) * sw;
    g_obj.m.ubuf_pic_common.vprepend = vpre; g_obj.m.ubuf_pic_common.vappend = vapp; g_obj.m.ubuf_pic_common.planes[0].buffer = g_bigarea;
    g_mm.common_mgr.mgr.ubuf_free = MEMFREE;
    g_mm.ubuf_pool.alloc_cb = stub_obj_alloc2; g_mm.ubuf_pool.free_cb = stub_obj_free; g_mm.ubuf_pool.refcount = NULL;
    g_mm.shared_pool.alloc_cb = NULL; g_mm.shared_pool.free_cb = stub_shared_free; g_mm.shared_pool.refcount = NULL;
    g_shared.pool = &g_mm.shared_pool; g_umem_mgr.umem_free = stub_umem_free; g_shared.umem.mgr = &g_umem_mgr;
    g_obj_live = g_obj_freed = g_shared_freed = g_umem_freed = 0; g_dups = 0; g_alloc_fails = (saf & 1) != 0;
    struct ubuf *odd = NULL, *even = NULL;
    int r = call_ctl(ubuf, UBUF_PICTURE_SPLIT_FIELDS, ubuf, &odd, &even);
    if (r != UBASE_ERR_NONE) {
        VPOST(g_obj_live == g_obj_freed && g_shared.refcount == 1);          /* nothing kept */
    } else {
        VPOST(odd != NULL && even != NULL && odd != even && g_shared.refcount == 3);
        const uint8_t *pic = NULL, *fld = NULL;
        VPOST(READ(ubuf, &pic) == UBASE_ERR_NONE && pic == g_bigarea + (size_t)vpre * sw);
        struct ubuf *f = (gf & 1) ? odd : even;
        size_t fh = 0, fv = 0; uint8_t mp = 0;
        VPOST(ubuf_pic_common_size(f, &fh, &fv, &mp) == UBASE_ERR_NONE && fh == sw && fv == (size_t)lines / 2);
        VPOST(READ(f, &fld) == UBASE_ERR_NONE);
        size_t fstride = ((struct ubuf_pic_common *)ubuf_pic_common_from_ubuf(f))->planes[0].stride;
        VPOST(fstride == 2u * sw);
        /* field pixel (gr, gc) is picture pixel (2 gr + parity, gc), inside the allocation */
        if (gr < lines / 2 && gc < sw) {
            const uint8_t *fp = fld + (size_t)gr * fstride + gc, *pp = pic + (size_t)(2 * gr + (gf & 1)) * sw + gc;
            VPOST(fp >= g_bigarea && fp < g_bigarea + g_shared.umem.size);
            VPOST(fp == pp);
        }
    }
    VCANARY();
}
#endif
#ifdef VENTRY
VMAIN(VENTRY)
#endif
