/* Contract unit: lib/upipe-modules/upipe_aggregate.c (included whole), upipe_agg_input  (property C14)
 *
 * Buffers are abstract block buffers of which only the size matters (uref_block_size reads ubuf_block.total_size,
 * uref_block_append is the real ubuf_block_append and adds the sizes). INV_agg: aggregated == NULL or
 * size == size(aggregated) <= output_size. From any state with INV_agg and INV_out, one input of any size:
 *   every unit delivered is non-empty and at most output_size octets (the configured size is respected);
 *   a buffer of size 0 or larger than output_size is refused (freed), everything else is accepted;
 *   octets delivered + octets still aggregated == octets aggregated before + octets accepted (each accepted octet
 *   ends up in exactly one unit); INV_agg holds again.
 */
#include "vpipeflow_pre.h"
#include <upipe/uref.h>
#include <upipe/ubuf_block.h>
#include <upipe/uref_block.h>
#include <stdlib.h>
#include "lib/upipe-modules/upipe_aggregate.c"
#define VP_STRUCT upipe_agg
#define VP_MGR upipe_agg_mgr
#define VP_HAS_OUTPUT 1
#define VP_ONE_TO_ONE 0
#define VP_INIT_MGR() VPIPE_INIT_MGR(upipe_agg_mgr, UPIPE_AGG_SIGNATURE, upipe_agg_alloc, upipe_agg_input, upipe_agg_control)
static struct upipe *vp_call_alloc(struct upipe_mgr *mgr, struct uprobe *uprobe, uint32_t signature, ...)
{
    va_list args; va_start(args, signature);
    struct upipe *upipe = upipe_agg_alloc(mgr, uprobe, signature, args);
    va_end(args);
    return upipe;
}
#define VP_ALLOC(mgr, probe) vp_call_alloc(mgr, probe, UPIPE_VOID_SIGNATURE)
static struct ubuf_mgr g_szmgr; static int g_live_units;
static size_t g_out_total, g_out_units, g_out_zero, g_out_oversize; static size_t g_osize;
static void stub_sized_out_input(struct upipe *upipe, struct uref *uref, struct upump **upump_p);
static void stub_sized_ubuf_free(struct ubuf *ubuf);
static struct uref *vs_sized_uref(size_t size);
static size_t vs_uref_size(struct uref *u) { return container_of(u->ubuf, struct ubuf_block, ubuf)->total_size; }
#define VP_EXTRA_STATE(upipe) \
    VIN(uint8_t, has_agg); VIN(uint16_t, agg_size); VIN(uint16_t, agg_osize); VIN(uint16_t, agg_isize); \
    VASSUME(agg_osize >= 1 && agg_size >= 1 && agg_size <= agg_osize); \
    g_szmgr.signature = UBUF_ALLOC_BLOCK; g_szmgr.ubuf_free = stub_sized_ubuf_free; \
    upipe_agg_from_upipe(upipe)->output_size = agg_osize; upipe_agg_from_upipe(upipe)->input_size = agg_isize; g_osize = agg_osize; \
    if (has_agg & 1) { struct uref *a_ = vs_sized_uref(agg_size); upipe_agg_from_upipe(upipe)->aggregated = a_; \
                       upipe_agg_from_upipe(upipe)->size = agg_size; g_extra_held = 1; } \
    else { upipe_agg_from_upipe(upipe)->aggregated = NULL; upipe_agg_from_upipe(upipe)->size = 0; } \
    gs_out_mgr.upipe_input = stub_sized_out_input; g_out_total = g_out_units = g_out_zero = g_out_oversize = 0
#include "vpipeflow.h"

static struct uref *vs_sized_uref(size_t size)
{
    struct uref *u = vs_make_uref(false, 0, 0);
    struct ubuf_block *b = malloc(sizeof(*b));
    VASSUME(u != NULL && b != NULL);
    b->ubuf.mgr = &g_szmgr; b->total_size = size; b->size = size; b->offset = 0; b->next_ubuf = NULL;
    b->cached_ubuf = &b->ubuf; b->cached_offset = 0; b->cached_end_ubuf = NULL; b->map = false; b->buffer = NULL;
    u->ubuf = &b->ubuf; g_live_units++;
    return u;
}
static void stub_sized_ubuf_free(struct ubuf *ubuf) { g_live_units--; }
static void stub_sized_out_input(struct upipe *upipe, struct uref *uref, struct upump **upump_p)
{
    size_t sz = vs_uref_size(uref);
    if (gs_ev_dead > 0) gs_out_after_dead++;
    gs_out_inputs++; gs_out_last_input = uref;
    if (gs_out_acc_ptr == NULL) gs_out_input_unaccepted++;
    g_out_total += sz; g_out_units++;
    if (sz == 0) g_out_zero++;
    if (sz > g_osize) g_out_oversize++;
    uref_free(uref);
}
#define DELIVERING() (VP_WITH_OUTPUT && g_had_def && g_state_old == UPIPE_HELPER_OUTPUT_VALID)
static inline bool spec_inv_agg(struct upipe *upipe)
{
    struct upipe_agg *a = upipe_agg_from_upipe(upipe);
    return a->aggregated == NULL || (a->size == vs_uref_size(a->aggregated) && a->size <= a->output_size);
}
void h_agg_input(void)
{
    VP_BUILD();
    struct upipe_agg *a = upipe_agg_from_upipe(upipe);
    VIN(uint16_t, in_len);
    size_t pending_old = a->aggregated != NULL ? a->size : 0;
    VASSUME(spec_inv_agg(upipe));
    struct uref *uref = vs_sized_uref(in_len);
    upipe_input(upipe, uref, NULL);
    size_t pending_new = a->aggregated != NULL ? a->size : 0;
    bool accepted = in_len >= 1 && in_len <= g_osize;
    VPOST(spec_inv_out(upipe) && spec_inv_agg(upipe));
    VPOST(g_out_zero == 0 && g_out_oversize == 0);                          /* every unit respects the configured size */
    VPOST(!DELIVERING() || g_out_total + pending_new == pending_old + (accepted ? in_len : 0));   /* each accepted octet in exactly one unit */
    VPOST(pending_new <= g_osize);
    VCANARY();
}
