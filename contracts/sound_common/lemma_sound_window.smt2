; INV_sound is preserved by an accepted resize (and an accepted plane_map window lies inside the allocation):
;   0 <= off, 0 <= ns, off + ns <= size, ss >= 1, woct + size*ss <= aoct   ==>   (woct + off*ss) + ns*ss <= aoct
(set-logic ALL)
(declare-const off Int)(declare-const ns Int)(declare-const ss Int)(declare-const size Int)(declare-const woct Int)(declare-const aoct Int)
(assert (and (>= off 0) (>= ns 0) (>= ss 1) (<= (+ off ns) size) (>= woct 0) (<= (+ woct (* size ss)) aoct)))
(assert (not (<= (+ woct (* off ss) (* ns ss)) aoct)))
(check-sat)
