/* Contract unit: lib/upipe/ubuf_sound_common.c (included whole)  (property C19, sound part)
 *
 * Representation: a sound ubuf has `size` visible samples; plane p's buffer points at the first
 * visible sample inside an allocation of g_asamples[p] samples starting at g_abase[p]:
 *     planes[p].buffer == g_abase[p] + g_woff[p] * sample_size,   g_woff[p] + size <= g_asamples[p]
 * (INV_sound). The property's sentences become:
 *   plane_map accepted  ==>  the normalised window [off, off+n) satisfies 0 <= off, off + n <= size and the
 *                            pointer returned is planes[p].buffer + off*sample_size   (inside the window,
 *                            hence inside the allocation by INV_sound);
 *   plane_map refuses a known channel only when the window is not inside [0, size];
 *   resize accepted     ==>  new window inside the old one, every plane's buffer advanced by off samples
 *                            (every surviving sample keeps its address), INV_sound preserved;
 *   resize refused      ==>  nothing changed.
 */
#include "lib/upipe/ubuf_sound_common.c"
#include "vspec.h"

#define MAXPL 3
#define MAXSAMPLES (1u << 23)      /* bound on the harness-built areas: samples * sample_size < 2^31 */

/* ---- objects built by the entries ------------------------------------------ */
static struct ubuf_sound_common_mgr g_mgr;
static struct ubuf_sound_common_mgr_plane g_mp[MAXPL];
static struct ubuf_sound_common_mgr_plane *g_mplanes[MAXPL];
static char g_chan[MAXPL][4];
static struct { struct ubuf_sound_common c; struct ubuf_sound_common_plane slots[MAXPL]; } g_obj;
#define g_common (&g_obj.c)

/* ---- ghost state -------------------------------------------------------------- */
static int g_pi;                    /* ghost plane index < nb_planes: every statement about "plane g_pi" is a forall */
static uint8_t *g_abase[MAXPL];     /* allocation of each plane */
static uint32_t g_aoct[MAXPL];      /* its size in octets */
static uint32_t g_woct[MAXPL];      /* window offset in octets at entry */
static uint8_t *g_oldbuf[MAXPL];    /* planes[p].buffer at entry */
static size_t g_oldsize;            /* common->size at entry */
static int g_plane;                 /* plane designated by the channel argument, -1 if unknown */
static uint8_t *g_out_old;          /* *buffer_p at entry */

/* ---- spec ------------------------------------------------------------------------ */
/* INV_sound for plane p: buffer == abase + woct, woct + size*sample_size <= aoct */
static inline bool spec_inv_plane(int p, uint32_t woct)
{
    uint32_t need = (uint32_t)g_common->size * (uint32_t)g_mgr.sample_size;
    return woct <= g_aoct[p] && need <= g_aoct[p] - woct && g_common->planes[p].buffer == g_abase[p] + woct;
}
static inline bool pre_sound(struct ubuf *ubuf)
{
    if (ubuf != &g_common->ubuf || ubuf->mgr != &g_mgr.mgr) return false;
    if (g_mgr.sample_size == 0 || g_mgr.nb_planes == 0 || g_mgr.nb_planes > MAXPL) return false;
    if (g_pi < 0 || g_pi >= g_mgr.nb_planes) return false;
    if (g_common->size > MAXSAMPLES || g_aoct[g_pi] > MAXSAMPLES * 255u) return false;
    if (g_oldsize != g_common->size || g_oldbuf[g_pi] != g_common->planes[g_pi].buffer) return false;
    return spec_inv_plane(g_pi, g_woct[g_pi]);
}
/* the channel names are "l", "r", "c" */
static inline int spec_plane_of(char c)
{
    int p = c == 'l' ? 0 : c == 'r' ? 1 : c == 'c' ? 2 : -1;
    return p < g_mgr.nb_planes ? p : -1;
}
/* normalised offset (the documentation: negative values start from the end) */
static inline int64_t spec_norm_off(int offset) { return offset < 0 ? (int64_t)g_oldsize + offset : (int64_t)offset; }
/* the request designates a window inside the visible samples */
static inline bool spec_window_ok(int offset, int size)
{
    int64_t off = spec_norm_off(offset);
    if (off < 0 || off > (int64_t)g_oldsize) return false;
    return size < 0 || off + (int64_t)size <= (int64_t)g_oldsize;
}
static inline bool post_map_accept_inside(struct ubuf *ubuf, int offset, int size, uint8_t **buffer_p, int ret)
{
    return ret != UBASE_ERR_NONE || (g_plane >= 0 && spec_window_ok(offset, size));
}
/* (stated for a request on plane g_pi; the ghost index makes it a statement about every plane) */
static inline bool post_map_pointer(struct ubuf *ubuf, int offset, int size, uint8_t **buffer_p, int ret)
{
    if (buffer_p == NULL) return true;
    if (ret != UBASE_ERR_NONE) return *buffer_p == g_out_old;
    if (g_plane != g_pi || !spec_window_ok(offset, size)) return true;      /* reported by accept_inside */
    /* window_ok: 0 <= off <= size <= 2^23, so the int product below cannot overflow */
    int off = (int)spec_norm_off(offset);
    return *buffer_p == g_oldbuf[g_pi] + off * g_mgr.sample_size;
}
static inline bool post_map_accepts_valid(struct ubuf *ubuf, int offset, int size, uint8_t **buffer_p, int ret)
{
    return !(g_plane >= 0 && spec_window_ok(offset, size)) || ret == UBASE_ERR_NONE;
}
static inline bool post_map_frame(struct ubuf *ubuf)
{
    return g_common->size == g_oldsize && g_common->planes[g_pi].buffer == g_oldbuf[g_pi];
}
/* resize */
static inline bool spec_resize_ok(int offset, int new_size)
{
    int64_t off = spec_norm_off(offset);
    if (off < 0 || off > (int64_t)g_oldsize) return false;
    return new_size == -1 || off + (int64_t)new_size <= (int64_t)g_oldsize;
}
static inline bool post_resize_accept_inside(struct ubuf *ubuf, int offset, int new_size, int ret)
{
    return ret != UBASE_ERR_NONE || spec_resize_ok(offset, new_size);
}
static inline bool post_resize_state(struct ubuf *ubuf, int offset, int new_size, int ret)
{
    if (ret != UBASE_ERR_NONE) return post_map_frame(ubuf);         /* refused: nothing changed */
    if (!spec_resize_ok(offset, new_size)) return true;             /* reported by accept_inside */
    int64_t off = spec_norm_off(offset);
    size_t ns = new_size == -1 ? (size_t)((int64_t)g_oldsize - off) : (size_t)new_size;
    return g_common->size == ns &&
           g_common->planes[g_pi].buffer == g_oldbuf[g_pi] + (uint32_t)off * (uint32_t)g_mgr.sample_size;
}
/* INV_sound after an accepted resize: post_resize_state gives new buffer == old buffer + off*ss and new size ns with
 * 0 <= off, off + ns <= old size; that the new window lies inside the allocation, (woct + off*ss) + ns*ss <= aoct,
 * is then lemma_sound_window.smt2 (mathematical integers; every product is < 2^31 under the unit's width bound). */
static inline bool post_resize_accepts_valid(struct ubuf *ubuf, int offset, int new_size, int ret)
{
    return !spec_resize_ok(offset, new_size) || ret == UBASE_ERR_NONE;
}

/* ---- contracts ----------------------------------------------------------------------- */
#ifndef VNATIVE
int ubuf_sound_common_plane_map(struct ubuf *ubuf, const char *channel, int offset, int size, uint8_t **buffer_p)
__CPROVER_requires(pre_sound(ubuf))
__CPROVER_requires(channel != NULL && g_plane == spec_plane_of(channel[0]))
__CPROVER_requires(buffer_p == NULL || *buffer_p == g_out_old)
__CPROVER_assigns(buffer_p != NULL: *buffer_p)
__CPROVER_ensures(post_map_accept_inside(ubuf, offset, size, buffer_p, __CPROVER_return_value))
__CPROVER_ensures(post_map_pointer(ubuf, offset, size, buffer_p, __CPROVER_return_value))
__CPROVER_ensures(post_map_accepts_valid(ubuf, offset, size, buffer_p, __CPROVER_return_value))
__CPROVER_ensures(post_map_frame(ubuf))
;
int ubuf_sound_common_resize(struct ubuf *ubuf, int offset, int new_size)
__CPROVER_requires(pre_sound(ubuf) && new_size >= -1)
__CPROVER_assigns(g_common->size, g_common->planes[0].buffer, g_common->planes[1].buffer, g_common->planes[2].buffer)
__CPROVER_ensures(post_resize_accept_inside(ubuf, offset, new_size, __CPROVER_return_value))
__CPROVER_ensures(post_resize_state(ubuf, offset, new_size, __CPROVER_return_value))
__CPROVER_ensures(post_resize_accepts_valid(ubuf, offset, new_size, __CPROVER_return_value))
;
#endif

/* ---- entries ---------------------------------------------------------------------------- */
static void build_sound(uint8_t nb_planes, uint8_t sample_size, size_t size, int pi,
                        const uint32_t *aoct, const uint32_t *woct)
{
    g_mgr.sample_size = sample_size; g_mgr.nb_planes = nb_planes; g_mgr.planes = g_mplanes;
    /* channel names: distinct, fixed (their spelling is irrelevant to the window arithmetic) */
    for (int p = 0; p < MAXPL; p++) {
        g_chan[p][0] = p == 0 ? 'l' : p == 1 ? 'r' : 'c'; g_chan[p][1] = 0; g_chan[p][2] = 0; g_chan[p][3] = 0;
        g_mp[p].channel = g_chan[p]; g_mplanes[p] = &g_mp[p];
    }
    g_common->size = size; g_common->ubuf.mgr = &g_mgr.mgr;
    g_oldsize = size; g_pi = pi;
    for (int p = 0; p < MAXPL; p++) {
        g_aoct[p] = aoct[p]; g_woct[p] = woct[p];
        g_abase[p] = malloc(aoct[p] ? aoct[p] : 1); VASSUME(g_abase[p] != NULL);
        g_common->planes[p].buffer = g_abase[p] + woct[p];
        g_oldbuf[p] = g_common->planes[p].buffer;
    }
}
#define BUILD() \
    VIN(uint8_t, nb_planes); VIN(uint8_t, sample_size); VIN(size_t, size); VIN(int, pi); \
    VIN_ARR(uint32_t, aoct, MAXPL); VIN_ARR(uint32_t, woct, MAXPL); \
    VASSUME(nb_planes >= 1 && nb_planes <= MAXPL && sample_size >= 1 && size <= MAXSAMPLES && pi >= 0 && pi < nb_planes); \
    for (int p_ = 0; p_ < MAXPL; p_++) VASSUME(aoct[p_] <= MAXSAMPLES * 255u && woct[p_] <= aoct[p_]); \
    build_sound(nb_planes, sample_size, size, pi, aoct, woct)

void h_sound_plane_map(void)
{
    BUILD();
    VIN(int, offset); VIN(int, msize); VIN(int, chan_sel); VIN(bool, want_ptr);
    char channel[4] = { 0, 0, 0, 0 };
    /* the requested channel: one of the planes' names, or an unknown one */
    channel[0] = chan_sel == 0 ? 'l' : chan_sel == 1 ? 'r' : chan_sel == 2 ? 'c' : 'x';
    g_plane = (chan_sel >= 0 && chan_sel < nb_planes) ? chan_sel : -1;
    uint8_t *out = NULL; uint8_t **buffer_p = want_ptr ? &out : NULL;
    g_out_old = out;
    struct ubuf *ubuf = &g_common->ubuf;
    VPRE(pre_sound(ubuf));
    int ret = ubuf_sound_common_plane_map(ubuf, channel, offset, msize, buffer_p);
    VPOST(post_map_accept_inside(ubuf, offset, msize, buffer_p, ret));
    VPOST(post_map_pointer(ubuf, offset, msize, buffer_p, ret));
    VPOST(post_map_accepts_valid(ubuf, offset, msize, buffer_p, ret));
    VPOST(post_map_frame(ubuf));
    VCANARY();
}

void h_sound_resize(void)
{
    BUILD();
    VIN(int, offset); VIN(int, new_size);
    struct ubuf *ubuf = &g_common->ubuf;
    VPRE(pre_sound(ubuf) && new_size >= -1);
    int ret = ubuf_sound_common_resize(ubuf, offset, new_size);
    VPOST(post_resize_accept_inside(ubuf, offset, new_size, ret));
    VPOST(post_resize_state(ubuf, offset, new_size, ret));
    VPOST(post_resize_accepts_valid(ubuf, offset, new_size, ret));
    VCANARY();
}

#ifdef VENTRY
VMAIN(VENTRY)
#endif
