/* Contract unit: lib/upipe-ts/upipe_ts_psi_join.c (included whole): upipe_ts_psi_join_sub_input   (property C16, joiner:
 * "the section joiner forwards every section of every input")
 *
 * The joiner and NSUB input subpipes are built directly in the state their allocators leave; a section handed to any
 * input subpipe (ghost index) is forwarded to the joiner's output exactly once, as the very same buffer, from an
 * arbitrary state of the output helper that satisfies INV_out with the output valid; with no valid output it is disposed
 * of exactly once (freed), never kept.
 */
#include "vpipeflow_pre.h"
#include "lib/upipe-ts/upipe_ts_psi_join.c"
#include "vspec.h"
#include "vstub_pipe.h"
int stub_udict_cmp(struct udict *a, struct udict *b) { return 0; }
#ifndef NSUB
#define NSUB 2
#endif
#ifndef WHICH
#define WHICH 0
#endif
#ifndef VALID_OUT
#define VALID_OUT 1
#endif
static struct upipe_ts_psi_join g_join; static struct upipe_ts_psi_join_sub g_sub[3];
static void stub_rc_cb(struct urefcount *rc) { }
#ifndef LAZY_OUT
#define LAZY_OUT 0
#endif
/* -DLAZY_OUT: the joiner has no output yet; the application connects one when the joiner asks for it (need_output) */
static int g_lazy_calls;
static int stub_probe_lazy(struct uprobe *uprobe, struct upipe *upipe, int event, va_list args)
{
    if (event == UPROBE_NEED_OUTPUT && LAZY_OUT && upipe == &g_join.upipe && g_join.output == NULL) {
        g_lazy_calls++;
        upipe_ts_psi_join_set_output(upipe, &gs_out);
        return UBASE_ERR_NONE;
    }
    return stub_probe_throw(uprobe, upipe, event, args);
}
void h_join_input(void)
{
    vs_reset_all(); gs_probe.uprobe_throw = stub_probe_lazy; g_lazy_calls = 0;
    struct upipe *jp = &g_join.upipe;
    upipe_ts_psi_join_mgr.signature = UPIPE_TS_PSI_JOIN_SIGNATURE;
    jp->mgr = &upipe_ts_psi_join_mgr; jp->uprobe = &gs_probe; jp->refcount = &g_join.urefcount; uchain_init(&jp->uchain);
    g_join.urefcount.refcount = 1; g_join.urefcount.cb = stub_rc_cb;
    ulist_init(&g_join.subs); ulist_init(&g_join.request_list);
    g_join.sub_mgr.signature = UPIPE_TS_PSI_JOIN_INPUT_SIGNATURE; g_join.sub_mgr.refcount = NULL; g_join.sub_mgr.upipe_input = upipe_ts_psi_join_sub_input;
    g_join.flow_def = vs_make_uref(true, 5, 0); VASSUME(g_join.flow_def != NULL);
    if (VALID_OUT) { g_join.output = &gs_out; gs_out_rc.refcount++; g_join.output_state = UPIPE_HELPER_OUTPUT_VALID; gs_out_acc_ptr = g_join.flow_def; gs_out_acc_id = 5; }
    else { g_join.output = NULL; g_join.output_state = UPIPE_HELPER_OUTPUT_NONE; }
    gs_flow_def_field = &g_join.flow_def;
    for (int k = 0; k < NSUB; k++) {
        struct upipe_ts_psi_join_sub *s = &g_sub[k];
        s->upipe.mgr = &g_join.sub_mgr; s->upipe.uprobe = &gs_probe; s->upipe.refcount = &s->urefcount; uchain_init(&s->upipe.uchain);
        s->urefcount.refcount = 1; s->urefcount.cb = stub_rc_cb; s->octetrate = 0; s->section_interval = 0; s->latency = 0;
        uchain_init(&s->uchain); ulist_add(&g_join.subs, &s->uchain);
    }
    const int which = WHICH;          /* compile-time: a symbolic pipe pointer defeats the symbolic executor */
    VIN(uint64_t, marker);
    struct uref *uref = vs_make_uref(true, 77, marker); VASSUME(uref != NULL);
    int live_old = gs_uref_live, in_old = gs_out_inputs;
    upipe_ts_psi_join_sub_input(&g_sub[which].upipe, uref, NULL);
    if (LAZY_OUT && !VALID_OUT) {
        /* the output connected on demand gets the definition first and, if it accepts it, the section itself */
        VPOST(g_lazy_calls == 1 && g_join.output == &gs_out && gs_out_setdef >= 1);
        VPOST(gs_out_inputs - in_old == (gs_out_acc_ptr != NULL ? 1 : 0));
        VPOST(gs_out_inputs == in_old || gs_out_last_input == uref);
    } else {
        VPOST(gs_out_inputs - in_old == (VALID_OUT ? 1 : 0));
        VPOST(!VALID_OUT || gs_out_last_input == uref);
    }
    VPOST(gs_uref_live == live_old - 1 && gs_out_input_unaccepted == 0 && gs_out_input_stale == 0);
    VCANARY();
}
#ifdef VENTRY
VMAIN(VENTRY)
#endif
