/* Contract unit: lib/upipe-modules/upipe_skip.c (included whole)   (C20; C04/C05/C01 groups below)
 *
 * The pipe under test is built by the real allocator (upipe_void_alloc -> upipe_skip_alloc), its
 * option is then set to an arbitrary value.  Control commands reach upipe_skip_control through the
 * real variadic upipe_control() (use/release bracket, manager function pointer, va_arg decoding).
 * The enforced contract's clauses are guarded by the command; the arguments the entry pushed into
 * the va_list are mirrored in ghost variables (the mirror is by construction of the entry).
 */
#include "lib/upipe-modules/upipe_skip.c"
#include "vspec.h"
#include "vstub_pipe.h"

#define S_SKIP(p) ((struct upipe_skip *)((char *)(p) - offsetof(struct upipe_skip, upipe)))

static struct upipe *g_pipe;
static int g_cmd; static unsigned int g_sig;
static size_t g_val, *g_ptr, g_offset_old, g_out_old;

static inline bool pre_skip_control(struct upipe *upipe, int command)
{
    return upipe == g_pipe && command == g_cmd && S_SKIP(upipe)->offset == g_offset_old &&
           (g_ptr == NULL || *g_ptr == g_out_old);
}
/* accepted setter: the value is stored */
static inline bool post_skip_set(struct upipe *upipe, int command, int ret)
{
    if (command != UPIPE_SKIP_SET_OFFSET) return true;
    if (g_sig != UPIPE_SKIP_SIGNATURE) return ret == UBASE_ERR_UNHANDLED && S_SKIP(upipe)->offset == g_offset_old;
    return ret == UBASE_ERR_NONE && S_SKIP(upipe)->offset == g_val;
}
/* getter: reports the stored value and does not change the pipe */
static inline bool post_skip_get(struct upipe *upipe, int command, int ret)
{
    if (command != UPIPE_SKIP_GET_OFFSET) return true;
    if (S_SKIP(upipe)->offset != g_offset_old) return false;
    if (g_sig != UPIPE_SKIP_SIGNATURE) return ret == UBASE_ERR_UNHANDLED && (g_ptr == NULL || *g_ptr == g_out_old);
    if (g_ptr == NULL) return ret == UBASE_ERR_INVALID;
    return ret == UBASE_ERR_NONE && *g_ptr == g_offset_old;
}
/* any other (unknown) command: unhandled, option untouched */
static inline bool post_skip_other(struct upipe *upipe, int command, int ret)
{
    if (command == UPIPE_SKIP_SET_OFFSET || command == UPIPE_SKIP_GET_OFFSET) return true;
    return ret == UBASE_ERR_UNHANDLED && S_SKIP(upipe)->offset == g_offset_old &&
           (g_ptr == NULL || *g_ptr == g_out_old);
}
#define POSTS_skip_control(P) P(post_skip_set) P(post_skip_get) P(post_skip_other)

#ifndef VNATIVE
static int upipe_skip_control(struct upipe *upipe, int command, va_list args)
__CPROVER_requires(pre_skip_control(upipe, command))
__CPROVER_assigns(g_cmd == UPIPE_SKIP_SET_OFFSET && g_sig == UPIPE_SKIP_SIGNATURE: S_SKIP(upipe)->offset;
                  g_cmd == UPIPE_SKIP_GET_OFFSET && g_sig == UPIPE_SKIP_SIGNATURE && g_ptr != NULL: *g_ptr)
#define P(p) __CPROVER_ensures(p(upipe, command, __CPROVER_return_value))
POSTS_skip_control(P)
#undef P
;
#endif

/* the pipe as upipe_skip_alloc leaves it (built directly: no function-pointer dispatch in the entry) */
static struct upipe_skip g_skip;
static struct upipe *build_skip(void)
{
    vs_reset_all();
    /* the manager table, as its static initialiser in upipe_skip.c gives it (statics are unknown under DFCC) */
    upipe_skip_mgr.refcount = NULL; upipe_skip_mgr.signature = UPIPE_SKIP_SIGNATURE;
    upipe_skip_mgr.upipe_err_str = NULL; upipe_skip_mgr.upipe_command_str = NULL; upipe_skip_mgr.upipe_event_str = NULL;
    upipe_skip_mgr.upipe_alloc = upipe_skip_alloc; upipe_skip_mgr.upipe_input = upipe_skip_input;
    upipe_skip_mgr.upipe_control = upipe_skip_control; upipe_skip_mgr.upipe_mgr_control = NULL;
    struct upipe *upipe = &g_skip.upipe;
    upipe->mgr = &upipe_skip_mgr; upipe->uprobe = &gs_probe; upipe->opaque = NULL;
    uchain_init(&upipe->uchain);
    upipe->refcount = &g_skip.urefcount;
    g_skip.urefcount.refcount = 1; g_skip.urefcount.cb = upipe_skip_dead_urefcount;
    g_skip.output = NULL; g_skip.flow_def = NULL; g_skip.output_state = UPIPE_HELPER_OUTPUT_NONE;
    ulist_init(&g_skip.request_list);
    g_skip.offset = 0;
    return upipe;
}
/* variadic trampoline: builds the va_list the manager's control function receives */
static int call_skip_control(struct upipe *upipe, int command, ...)
{
    va_list args; va_start(args, command);
    int ret = upipe_skip_control(upipe, command, args);
    va_end(args);
    return ret;
}

/* One entry per command (VCMD is a compile-time constant so that symbolic execution follows only that
 * command's path): the two option commands, and a command of a foreign local range. */
#ifndef VCMD
#define VCMD UPIPE_SKIP_GET_OFFSET
#endif
void h_skip_control(void)
{
    struct upipe *upipe = build_skip();
    VIN(size_t, cur); S_SKIP(upipe)->offset = cur;
    VIN(unsigned int, sig); VIN(size_t, val); VIN(bool, nullp); VIN(size_t, out);
    int command = VCMD;
    size_t *p = nullp ? NULL : &out;
    g_pipe = upipe; g_cmd = command; g_sig = sig; g_val = val; g_offset_old = cur; g_out_old = out;
    g_ptr = command == UPIPE_SKIP_GET_OFFSET ? p : NULL;
    VPRE(pre_skip_control(upipe, command));
    int ret;
    if (command == UPIPE_SKIP_GET_OFFSET) ret = call_skip_control(upipe, command, sig, p);
    else ret = call_skip_control(upipe, command, sig, val);
#define P(p_) VPOST(p_(upipe, command, ret));
    POSTS_skip_control(P)
#undef P
    VCANARY();
}

#ifdef VENTRY
VMAIN(VENTRY)
#endif
