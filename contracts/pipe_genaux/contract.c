/* Contract unit: lib/upipe-modules/upipe_genaux.c (included whole)
 * (property C04: "a downstream pipe always receives and accepts the current flow definition before the first buffer of that
 *  flow, again after every change of flow definition"; C05 "pipes that hold input ... release it in order"; C20: the getattr option)
 *
 * genaux passes a new input flow definition through the same FIFO as the data (upipe_input of the duplicated definition).
 * While buffers are held (the buffer manager has not been provided yet) a set_flow_def must therefore QUEUE the definition
 * behind them — it may not touch the stored definition, ask for a new buffer manager or send anything — so that the held
 * buffers are still delivered under the definition they came with (the FIFO order of output_input is the helper_input unit).
 *   set_flow_def, NHELD >= 1 buffers held : the held list is the same buffers in the same order followed by one new element
 *        (a duplicate of the definition, with a dictionary), the stored definition / output state / request registration are
 *        untouched, nothing reaches the output, no event but log messages; a refused call (allocation) changes nothing;
 *   getattr option : an accepted setter stores the callback, the getter returns it and alters nothing, a NULL callback /
 *        NULL result pointer is refused and leaves the previous one in force.
 */
#include "vpipeflow_pre.h"
#include <stdlib.h>
/* request proxies are released through (urequest_free_func)free: counted instead of executed, so that the function pointer has a body */
static int g_proxy_freed; static void stub_free_fn(void *p) { g_proxy_freed++; }
#define free stub_free_fn
/* the request interface below the pipe (C12 units) is cut here: registering / offering a request is recorded, nothing more —
 * a set_flow_def that is merely queued must not get that far */
#include <upipe/upipe.h>
static int g_req_registered, g_req_unregistered, g_req_offered;
static int stub_reg_request(struct upipe *u, struct urequest *r) { g_req_registered++; r->registered = true; return UBASE_ERR_NONE; }
static int stub_unreg_request(struct upipe *u, struct urequest *r) { g_req_unregistered++; r->registered = false; return UBASE_ERR_NONE; }
static int stub_offer_request(struct upipe *u, struct urequest *r) { g_req_offered++; return UBASE_ERR_UNHANDLED; }
#define upipe_register_request stub_reg_request
#define upipe_unregister_request stub_unreg_request
#define upipe_throw_provide_request stub_offer_request
#include "lib/upipe-modules/upipe_genaux.c"
#include "vspec.h"
#include "vstub_pipe.h"
int stub_udict_cmp(struct udict *a, struct udict *b)
{
    return container_of(a, struct vs_udict, udict)->def_id == container_of(b, struct vs_udict, udict)->def_id ? 0 : 1;
}
#ifndef NHELD
#define NHELD 1
#endif
#ifndef WITH_OUTPUT
#define WITH_OUTPUT 0
#endif
static struct upipe *vp_call_alloc(struct upipe_mgr *mgr, struct uprobe *uprobe, uint32_t signature, ...)
{
    va_list args; va_start(args, signature);
    struct upipe *upipe = upipe_genaux_alloc(mgr, uprobe, signature, args);
    va_end(args);
    return upipe;
}
/* no buffer manager has been provided in these states: an allocation, if the pipe got that far, finds none */
static struct ubuf *stub_ubuf_alloc_none(struct ubuf_mgr *mgr, uint32_t signature, va_list args) { return NULL; }
static void *g_keep_alloc;
static int stub_getattr(struct uref *u, uint64_t *p) { *p = 0; return UBASE_ERR_NONE; }
static int stub_getattr2(struct uref *u, uint64_t *p) { *p = 1; return UBASE_ERR_NONE; }
#define BUILD() \
    vs_reset_all(); g_keep_alloc = (void *)stub_ubuf_alloc_none; VPIPE_INIT_MGR(upipe_genaux_mgr, UPIPE_GENAUX_SIGNATURE, upipe_genaux_alloc, upipe_genaux_input, upipe_genaux_control); \
    struct upipe *upipe = vp_call_alloc(&upipe_genaux_mgr, &gs_probe, UPIPE_VOID_SIGNATURE); VASSUME(upipe != NULL); \
    struct upipe_genaux *s = upipe_genaux_from_upipe(upipe); \
    if (WITH_OUTPUT) { s->output = &gs_out; gs_out_rc.refcount++; }

void h_set_flow_def_held(void)
{
    BUILD();
    /* NHELD buffers are waiting for the buffer manager; a definition (or none yet) is stored */
    struct uref *held[3] = { NULL, NULL, NULL };
    for (int k = 0; k < NHELD; k++) { held[k] = vs_make_uref(false, 0, 100 + k); VASSUME(held[k] != NULL); ulist_add(&s->urefs, uref_to_uchain(held[k])); s->nb_urefs++; }
    VIN(uint8_t, has_def); VIN(uint8_t, st);
    if (has_def & 1) { s->flow_def = vs_make_uref(true, 5, 0); VASSUME(s->flow_def != NULL); }
    s->output_state = (st & 1) && WITH_OUTPUT && (has_def & 1) ? UPIPE_HELPER_OUTPUT_VALID : UPIPE_HELPER_OUTPUT_NONE;
    struct uref *def_old = s->flow_def; int state_old = s->output_state; struct ubuf_mgr *mgr_old = s->ubuf_mgr;
    struct uref *nd = vs_make_uref(true, 9, 0); VASSUME(nd != NULL);
    g_req_registered = g_req_unregistered = g_req_offered = 0;
    int ev0 = gs_ev_nonlog, in0 = gs_out_inputs, sd0 = gs_out_setdef, reg0 = gs_out_reg, live0 = gs_uref_live;
    int ret = upipe_genaux_set_flow_def(upipe, nd);
    /* the definition did not overtake the held buffers */
    VPOST(s->flow_def == def_old && (int)s->output_state == state_old && s->ubuf_mgr == mgr_old);
    VPOST(gs_out_inputs == in0 && gs_out_setdef == sd0 && gs_out_reg == reg0 && gs_ev_nonlog - ev0 <= 1);
    VPOST(g_req_registered == 0 && g_req_unregistered == 0 && g_req_offered == 0);                           /* no new buffer-manager request yet */       /* nothing sent (a fatal event if the dictionary could not be written) */
    /* held list: the same buffers, same order, then (if accepted) one more element: the duplicated definition */
    struct uchain *c = s->urefs.next; bool same = true;
    for (int k = 0; k < NHELD; k++) { if (c != uref_to_uchain(held[k])) same = false; c = c->next; }
    VPOST(same);
    if (ret == UBASE_ERR_NONE) {
        VPOST(c != &s->urefs && c->next == &s->urefs && s->nb_urefs == NHELD + 1);
        struct uref *q = uref_from_uchain(c);
        VPOST(q != nd && q->udict != NULL && vs_def_id(q) == 9 && gs_uref_live == live0 + 1);
    } else
        VPOST(c == &s->urefs && s->nb_urefs == NHELD && gs_uref_live == live0);
    VCANARY();
}
/* C20: getattr callback as an option pair */
void h_getattr_opt(void)
{
    BUILD();
    VIN(uint8_t, which); VIN(uint8_t, nullp);
    int (*prev)(struct uref *, uint64_t *) = s->getattr;
    int (*cb)(struct uref *, uint64_t *) = (which % 3) == 0 ? NULL : (which % 3) == 1 ? stub_getattr : stub_getattr2;
    int r1 = _upipe_genaux_set_getattr(upipe, cb);
    VPOST(cb == NULL ? (r1 != UBASE_ERR_NONE && s->getattr == prev) : (r1 == UBASE_ERR_NONE && s->getattr == cb));
    int (*got)(struct uref *, uint64_t *) = stub_getattr2, (*cur)(struct uref *, uint64_t *) = s->getattr;
    int r2 = _upipe_genaux_get_getattr(upipe, (nullp & 1) ? NULL : &got);
    VPOST(s->getattr == cur);                                              /* the getter alters nothing */
    VPOST((nullp & 1) ? r2 != UBASE_ERR_NONE : (r2 == UBASE_ERR_NONE && got == cur));
    VCANARY();
}
#ifdef VENTRY
VMAIN(VENTRY)
#endif
