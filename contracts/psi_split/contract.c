/* Contract unit: lib/upipe-ts/upipe_ts_psi_split.c (included whole): upipe_ts_psi_split_input  (property C16, splitter)
 *
 * "The section splitter delivers each section unmodified to exactly those outputs whose filter and mask match its
 * leading bytes." The masked comparison itself is ubuf_block_match (a C03 accessor, not under contract yet): here it
 * and the filter attribute getter are replaced by their contracts — stub_block_match answers, for the filter of
 * output k, an arbitrary but fixed boolean g_match[k] — and the ROUTING is verified: for every output k (ghost index)
 * of NSUB outputs, the output receives exactly one buffer iff g_match[k], that buffer is a duplicate of the input
 * (same scalar fields, dictionary duplicated), nothing else receives anything, and the input itself is disposed of
 * exactly once (also when a duplication fails: fatal error thrown, nothing leaked).
 */
#include <upipe/ubase.h>
#include <upipe/uref.h>
#include <upipe/uref_block.h>
#include <upipe-ts/uref_ts_flow.h>
#ifndef NSUB
#define NSUB 2
#endif
static int stub_get_filter(struct uref *flow_def, const uint8_t **filter_p, const uint8_t **mask_p, size_t *size_p);
static int stub_block_match(struct uref *uref, const uint8_t *filter, const uint8_t *mask, size_t size);
#define uref_ts_flow_get_psi_filter stub_get_filter
#define uref_block_match stub_block_match
#include "lib/upipe-ts/upipe_ts_psi_split.c"
#include "vspec.h"
#include "vstub_pipe.h"

static uint8_t g_filters[3][2]; static bool g_match[3], g_has_filter[3]; static int g_match_calls[3];
static int stub_get_filter(struct uref *flow_def, const uint8_t **filter_p, const uint8_t **mask_p, size_t *size_p)
{
    int k = vs_def_id(flow_def);
    if (k < 0 || k >= 3 || !g_has_filter[k]) return UBASE_ERR_INVALID;
    *filter_p = &g_filters[k][0]; *mask_p = &g_filters[k][1]; *size_p = 1;
    return UBASE_ERR_NONE;
}
static int stub_block_match(struct uref *uref, const uint8_t *filter, const uint8_t *mask, size_t size)
{
    int k = filter == &g_filters[0][0] ? 0 : filter == &g_filters[1][0] ? 1 : 2;
    g_match_calls[k]++;
    return g_match[k] ? UBASE_ERR_NONE : UBASE_ERR_INVALID;
}
/* per-output recording stubs */
static struct upipe g_out[3]; static struct urefcount g_orc[3]; static struct upipe_mgr g_omgr;
static int g_got[3]; static uint64_t g_got_priv[3]; static struct uref *g_got_ptr[3];
static void stub_rc_cb(struct urefcount *rc) { }
static void stub_split_out_input(struct upipe *upipe, struct uref *uref, struct upump **upump_p)
{
    int k = upipe == &g_out[0] ? 0 : upipe == &g_out[1] ? 1 : 2;
    g_got[k]++; g_got_priv[k] = uref->priv; g_got_ptr[k] = uref;
    uref_free(uref);
}
static int stub_split_out_control(struct upipe *upipe, int command, va_list args) { return UBASE_ERR_NONE; }
static struct upipe_ts_psi_split g_split; static struct upipe_ts_psi_split_sub g_sub[3];
#ifndef LAZY
#define LAZY (-1)
#endif
/* -DLAZY=k: output k has no sink yet; the application connects one when the output asks for it (need_output event):
 * a matching section must still reach it */
static int stub_probe_lazy(struct uprobe *uprobe, struct upipe *upipe, int event, va_list args)
{
    if (event == UPROBE_NEED_OUTPUT && LAZY >= 0 && upipe == &g_sub[LAZY >= 0 ? LAZY : 0].upipe && g_sub[LAZY >= 0 ? LAZY : 0].output == NULL) {
        upipe_ts_psi_split_sub_set_output(upipe, &g_out[LAZY >= 0 ? LAZY : 0]);
        return UBASE_ERR_NONE;
    }
    return stub_probe_throw(uprobe, upipe, event, args);
}

void h_split_input(void)
{
    vs_reset_all(); gs_probe.uprobe_throw = stub_probe_lazy;
    VPIPE_INIT_MGR(g_omgr, 0x73706c30, NULL, stub_split_out_input, stub_split_out_control);
    /* the splitter and its outputs as their allocators leave them (built directly: static objects) */
    struct upipe *upipe = &g_split.upipe;
    upipe_ts_psi_split_mgr.signature = UPIPE_TS_PSI_SPLIT_SIGNATURE; upipe_ts_psi_split_mgr.upipe_input = upipe_ts_psi_split_input;
    upipe->mgr = &upipe_ts_psi_split_mgr; upipe->uprobe = &gs_probe; upipe->refcount = &g_split.urefcount; uchain_init(&upipe->uchain);
    g_split.urefcount.refcount = 1; g_split.urefcount.cb = stub_rc_cb; g_split.urefcount_real.refcount = 1; g_split.urefcount_real.cb = stub_rc_cb;
    ulist_init(&g_split.subs);
    g_split.sub_mgr.signature = UPIPE_TS_PSI_SPLIT_OUTPUT_SIGNATURE; g_split.sub_mgr.refcount = NULL;
    VIN_ARR(uint8_t, match, 3); VIN_ARR(uint8_t, hasf, 3);
    for (int k = 0; k < NSUB; k++) {
        struct upipe_ts_psi_split_sub *s = &g_sub[k];
        g_match[k] = (match[k] & 1) != 0; g_has_filter[k] = (hasf[k] & 1) != 0; g_match_calls[k] = 0; g_got[k] = 0; g_got_ptr[k] = NULL;
        g_out[k].mgr = &g_omgr; g_out[k].refcount = &g_orc[k]; g_orc[k].refcount = 2; g_orc[k].cb = stub_rc_cb; uchain_init(&g_out[k].uchain); g_out[k].uprobe = NULL;
        s->upipe.mgr = &g_split.sub_mgr; s->upipe.uprobe = &gs_probe; s->upipe.refcount = &s->urefcount; uchain_init(&s->upipe.uchain);
        s->urefcount.refcount = 1; s->urefcount.cb = stub_rc_cb;
        s->output = &g_out[k]; s->flow_def = vs_make_uref(true, k, 0); VASSUME(s->flow_def != NULL);
        s->output_state = UPIPE_HELPER_OUTPUT_VALID; ulist_init(&s->request_list);
        if (k == LAZY) { s->output = NULL; s->output_state = UPIPE_HELPER_OUTPUT_NONE; }
        uchain_init(&s->uchain); ulist_add(&g_split.subs, &s->uchain);
    }
    VIN(uint64_t, marker); VIN(uint8_t, in_dict);
    struct uref *uref = vs_make_uref((in_dict & 1) != 0, 77, marker); VASSUME(uref != NULL);
    uint64_t in_priv = uref->priv;
    int live_old = gs_uref_live;
    upipe_ts_psi_split_input(upipe, uref, NULL);
    VIN(uint8_t, gk); VASSUME(gk < NSUB);
    bool should = g_has_filter[gk] && g_match[gk];
    /* exactly the matching outputs, each exactly once, with a copy of the section */
    VPOST(gs_ev_fatal > 0 || g_got[gk] == (should ? 1 : 0));
    VPOST(g_got[gk] <= 1 && (g_got[gk] == 0 || (should && g_got_priv[gk] == in_priv)));
    VPOST(gs_uref_live == live_old - 1);                          /* input disposed of once; every copy reached an output (which frees it) or was freed */
    VCANARY();
}
#ifdef VENTRY
VMAIN(VENTRY)
#endif
