/* vstub_pipe.h — the far side of every function-pointer interface a pipe talks to, as executable
 * assumed contracts with ghost state (DESIGN §3.2).  Included by pipe-level contract units after
 * the upipe headers.  Everything here is TRUSTED (listed in evidence):
 *   probe        : records every event thrown (log events included), returns an arbitrary error code
 *                  for non-log events and keeps no pointer.
 *   output pipe  : records SET_FLOW_DEF (accepting or rejecting arbitrarily), every input buffer (which
 *                  it then owns and frees), register/unregister of requests.
 *   uref manager : malloc/free with a live counter; allocation may fail.
 *   udict manager: an over-approximating dictionary: lookups answer arbitrarily (found or not, any small
 *                  value), dup may fail, free frees; it keeps a ghost identity "def id" that dup copies.
 */
#ifndef VSTUB_PIPE_H
#define VSTUB_PIPE_H
#include <upipe/ubase.h>
#include <upipe/uprobe.h>
#include <upipe/upipe.h>
#include <upipe/uref.h>
#include <upipe/udict.h>
#include <upipe/urequest.h>
#include <stdlib.h>

#include "vstub_choice.h"

/* ------------------------------------------------------------------ probe */
static int gs_ev_count;          /* events of any kind, log included */
static int gs_ev_nonlog;         /* events other than log */
static int gs_ev_first_nonlog;   /* first non-log event, -1 if none */
static int gs_ev_ready, gs_ev_dead, gs_ev_fatal;
static int gs_ev_after_dead;     /* events of any kind thrown after dead */
static int gs_ev_last;
static struct upipe *gs_ev_pipe; /* pipe of the last event */
static int stub_probe_throw(struct uprobe *uprobe, struct upipe *upipe, int event, va_list args)
{
    if (gs_ev_dead > 0 && gs_ev_after_dead < 1000) gs_ev_after_dead++;
    if (gs_ev_count < 1000000) gs_ev_count++;
    gs_ev_last = event; gs_ev_pipe = upipe;
    if (event == UPROBE_LOG)
        return UBASE_ERR_NONE;
    if (gs_ev_nonlog == 0) gs_ev_first_nonlog = event;
    if (gs_ev_nonlog < 1000000) gs_ev_nonlog++;
    if (event == UPROBE_READY && gs_ev_ready < 1000) gs_ev_ready++;
    if (event == UPROBE_DEAD && gs_ev_dead < 1000) gs_ev_dead++;
    if (event == UPROBE_FATAL && gs_ev_fatal < 1000) gs_ev_fatal++;
    return VS_CHOICE(probe_ret) & 1 ? UBASE_ERR_NONE : UBASE_ERR_UNHANDLED;
}
static struct uprobe gs_probe = { NULL, stub_probe_throw, NULL };
static void vs_probe_reset(void)
{
    gs_ev_count = gs_ev_nonlog = gs_ev_ready = gs_ev_dead = gs_ev_after_dead = gs_ev_fatal = 0;
    gs_ev_first_nonlog = -1; gs_ev_last = -1; gs_ev_pipe = NULL;
}

/* ------------------------------------------------------------------ uref / udict managers */
#ifndef VSTUB_NO_UDICT_INLINE
/* only the (const) shorthand table of the real inline manager is used: base type of each shorthand */
#include "lib/upipe/udict_inline.c"
#endif
/* size a well-formed dictionary reports for an attribute of this type; (size_t)-1: variable */
static size_t vs_attr_size(enum udict_type type)
{
    enum udict_type base = type;
    if (type > UDICT_TYPE_SHORTHAND) {
        size_t idx = type - UDICT_TYPE_SHORTHAND - 1;
        if (idx < sizeof(inline_shorthands) / sizeof(inline_shorthands[0]))
            base = inline_shorthands[idx].base_type;
    }
    switch (base) {
    case UDICT_TYPE_VOID: return 0;
    case UDICT_TYPE_BOOL: case UDICT_TYPE_SMALL_UNSIGNED: case UDICT_TYPE_SMALL_INT: return 1;
    case UDICT_TYPE_UNSIGNED: case UDICT_TYPE_INT: case UDICT_TYPE_FLOAT: return 8;
    case UDICT_TYPE_RATIONAL: return 16;
    default: return (size_t)-1;
    }
}
struct vs_udict { struct udict udict; int def_id; };
static int gs_udict_live, gs_uref_live, gs_uref_freed;
static struct uref *gs_uref_last_freed;
static struct udict_mgr gs_udict_mgr;
static uint8_t gs_attr_buf[16];         /* storage handed out by GET/SET */
static struct udict *stub_udict_alloc(struct udict_mgr *mgr, size_t size)
{
    if (VS_CHOICE(udict_alloc_fails) & 1) return NULL;
    struct vs_udict *d = malloc(sizeof(*d));
    if (d == NULL) return NULL;
    d->udict.mgr = &gs_udict_mgr; d->def_id = (int)(VS_CHOICE(udict_id) & 0xffff);
    gs_udict_live++;
    return &d->udict;
}
static void stub_udict_free(struct udict *udict)
{
    gs_udict_live--;
    free(container_of(udict, struct vs_udict, udict));
}
static int stub_udict_control(struct udict *udict, int command, va_list args)
{
    switch (command) {
    case UDICT_DUP: {
        struct udict **p = va_arg(args, struct udict **);
        struct udict *n = stub_udict_alloc(udict->mgr, 0);
        if (n == NULL) return UBASE_ERR_ALLOC;
        container_of(n, struct vs_udict, udict)->def_id = container_of(udict, struct vs_udict, udict)->def_id;
        *p = n;
        return UBASE_ERR_NONE;
    }
    case UDICT_ITERATE: {
        const char **name_p = va_arg(args, const char **);
        enum udict_type *type_p = va_arg(args, enum udict_type *);
        *name_p = NULL; *type_p = UDICT_TYPE_END;      /* iteration sees no attribute */
        return UBASE_ERR_NONE;
    }
    case UDICT_GET: {
        const char *name = va_arg(args, const char *);
        enum udict_type type = va_arg(args, enum udict_type);
        size_t *size_p = va_arg(args, size_t *);
        const uint8_t **attr_p = va_arg(args, const uint8_t **);
        (void)name;
        if (VS_CHOICE(udict_get_absent) & 1) return UBASE_ERR_INVALID;
        size_t sz = vs_attr_size(type);
        { uint64_t lo = VS_CHOICE(attr_lo), hi = VS_CHOICE(attr_hi);      /* the value: 16 arbitrary octets */
          for (int i = 0; i < 8; i++) { gs_attr_buf[i] = (uint8_t)(lo >> (8 * i)); gs_attr_buf[8 + i] = (uint8_t)(hi >> (8 * i)); } }
        if (sz == (size_t)-1) {          /* string / opaque: any small size; strings are terminated */
            sz = 1 + VS_CHOICE(udict_get_size) % sizeof(gs_attr_buf);
            gs_attr_buf[sz - 1] = 0;
        }
        if (size_p) *size_p = sz;
        if (attr_p) *attr_p = gs_attr_buf;
        return UBASE_ERR_NONE;
    }
    case UDICT_SET: {
        const char *name = va_arg(args, const char *);
        enum udict_type type = va_arg(args, enum udict_type);
        size_t size = va_arg(args, size_t);
        uint8_t **attr_p = va_arg(args, uint8_t **);
        (void)name; (void)type;
        if (size > sizeof(gs_attr_buf) || (VS_CHOICE(udict_set_fails) & 1)) return UBASE_ERR_ALLOC;
        *attr_p = gs_attr_buf;
        return UBASE_ERR_NONE;
    }
    case UDICT_DELETE:
        return VS_CHOICE(udict_delete_absent) & 1 ? UBASE_ERR_INVALID : UBASE_ERR_NONE;
    default:
        return UBASE_ERR_UNHANDLED;
    }
}
/* udict_control_va() only dispatches when the manager has a udict_mgr_control (as every real manager does) */
static int stub_udict_mgr_control(struct udict_mgr *mgr, int command, va_list args) { return UBASE_ERR_UNHANDLED; }
static struct udict_mgr gs_udict_mgr = { NULL, stub_udict_alloc, stub_udict_control, stub_udict_free, stub_udict_mgr_control };

static struct uref_mgr gs_uref_mgr;
static struct uref *stub_uref_alloc(struct uref_mgr *mgr)
{
    if (VS_CHOICE(uref_alloc_fails) & 1) return NULL;
    struct uref *u = malloc(sizeof(*u));
    if (u == NULL) return NULL;
    u->mgr = &gs_uref_mgr;
    uchain_init(&u->uchain);
    gs_uref_live++;
    return u;
}
static void stub_uref_free(struct uref *uref)
{
    gs_uref_live--; if (gs_uref_freed < 1000000) gs_uref_freed++;
    gs_uref_last_freed = uref;
    free(uref);
}
static struct uref_mgr gs_uref_mgr = { NULL, 0, &gs_udict_mgr, stub_uref_alloc, stub_uref_free, NULL };
/* a uref (no ubuf) with or without a dictionary, every scalar field taken from v */
static struct uref *vs_make_uref(bool with_dict, int def_id, uint64_t v)
{
    struct uref *u = malloc(sizeof(*u));
    if (u == NULL) return NULL;
    u->mgr = &gs_uref_mgr; uchain_init(&u->uchain); u->ubuf = NULL; u->udict = NULL;
    u->flags = v; u->date_sys = v + 1; u->date_prog = v + 2; u->date_orig = v + 3;
    u->dts_pts_delay = v + 4; u->cr_dts_delay = v + 5; u->rap_cr_delay = v + 6; u->priv = v + 7;
    gs_uref_live++;
    if (with_dict) {
        struct vs_udict *d = malloc(sizeof(*d));
        if (d == NULL) { gs_uref_live--; free(u); return NULL; }
        d->udict.mgr = &gs_udict_mgr; d->def_id = def_id; gs_udict_live++;
        u->udict = &d->udict;
    }
    return u;
}
static inline int vs_def_id(const struct uref *u)
{
    return (u != NULL && u->udict != NULL) ? container_of(u->udict, struct vs_udict, udict)->def_id : -1;
}

/* ------------------------------------------------------------------ downstream pipe */
static struct upipe gs_out;
static struct urefcount gs_out_rc;
static int gs_out_dead;                 /* output pipe destructor ran */
static int gs_out_setdef;               /* SET_FLOW_DEF commands received */
static int gs_out_acc_id;               /* def id of the last accepted definition, -1 none/rejected */
static struct uref *gs_out_acc_ptr;     /* the definition uref last accepted (identity), NULL if none/rejected */
static int gs_out_inputs;               /* buffers received */
static struct uref *gs_out_last_input;
static struct uref gs_out_last_copy;     /* the last buffer as it arrived (scalar fields and pointers), taken before the stub frees it */
static int gs_out_input_unaccepted;     /* buffers received while no definition was accepted */
static int gs_out_last_input_def;       /* accepted def id at the time of the last input */
static int gs_out_reg, gs_out_unreg;    /* register / unregister request commands */
static struct urequest *gs_out_last_req;
static int gs_out_after_dead;           /* anything sent to the output after the upstream pipe threw dead */
static int gs_out_input_stale;          /* buffers received while the accepted definition was not the upstream pipe's current one */
static struct uref **gs_flow_def_field;  /* where the upstream pipe keeps its current definition (set by the entry; NULL: not checked) */
static struct uref gs_other_def;        /* stands for 'some other definition' the output accepted earlier */
static void stub_out_input(struct upipe *upipe, struct uref *uref, struct upump **upump_p)
{
    if (gs_ev_dead > 0) gs_out_after_dead++;
    if (gs_out_inputs < 1000000) gs_out_inputs++;
    gs_out_last_input = uref; gs_out_last_copy = *uref;
    gs_out_last_input_def = gs_out_acc_id;
    if (gs_out_acc_ptr == NULL && gs_out_input_unaccepted < 1000) gs_out_input_unaccepted++;
    if (gs_flow_def_field != NULL) {
        struct uref *fd = *gs_flow_def_field;
        bool current = fd != NULL && gs_out_acc_ptr != NULL &&
                       (gs_out_acc_ptr == fd || (gs_out_acc_id >= 0 && gs_out_acc_id == vs_def_id(fd)));
        if (!current && gs_out_input_stale < 1000) gs_out_input_stale++;
    }
    uref_free(uref);                    /* the buffer belongs to the callee */
}
static int stub_out_control(struct upipe *upipe, int command, va_list args)
{
    switch (command) {
    case UPIPE_SET_FLOW_DEF: {
        struct uref *flow_def = va_arg(args, struct uref *);
        if (gs_ev_dead > 0) gs_out_after_dead++;
        if (gs_out_setdef < 1000000) gs_out_setdef++;
        if (flow_def != NULL && (VS_CHOICE(out_accepts) & 1)) {
            gs_out_acc_ptr = flow_def; gs_out_acc_id = vs_def_id(flow_def);
            return UBASE_ERR_NONE;
        }
        gs_out_acc_ptr = NULL; gs_out_acc_id = -1;
        return UBASE_ERR_INVALID;
    }
    case UPIPE_REGISTER_REQUEST: {
        struct urequest *r = va_arg(args, struct urequest *);
        if (gs_out_reg < 1000000) gs_out_reg++;
        gs_out_last_req = r;
        return VS_CHOICE(out_handles_request) & 1 ? UBASE_ERR_NONE : UBASE_ERR_UNHANDLED;
    }
    case UPIPE_UNREGISTER_REQUEST: {
        struct urequest *r = va_arg(args, struct urequest *);
        if (gs_out_unreg < 1000000) gs_out_unreg++;
        gs_out_last_req = r;
        return UBASE_ERR_NONE;
    }
    default:
        return VS_CHOICE(out_ctl_ret) & 1 ? UBASE_ERR_NONE : UBASE_ERR_UNHANDLED;
    }
}
static struct upipe_mgr gs_out_mgr = { .refcount = NULL, .signature = 0x6f757430,
    .upipe_alloc = NULL, .upipe_input = stub_out_input, .upipe_control = stub_out_control, .upipe_mgr_control = NULL };
static void stub_out_dead(struct urefcount *rc) { gs_out_dead++; }
static void vs_out_reset(uint32_t refs)
{
    gs_out.refcount = &gs_out_rc; gs_out.mgr = &gs_out_mgr; gs_out.uprobe = NULL; gs_out.opaque = NULL;
    uchain_init(&gs_out.uchain);
    gs_out_rc.refcount = refs; gs_out_rc.cb = stub_out_dead;
    gs_out_dead = gs_out_setdef = gs_out_inputs = gs_out_input_unaccepted = gs_out_reg = gs_out_unreg = gs_out_after_dead = 0;
    gs_out_input_stale = 0; gs_flow_def_field = NULL;
    gs_out_acc_id = -1; gs_out_acc_ptr = NULL; gs_out_last_input = NULL; gs_out_last_input_def = -1; gs_out_last_req = NULL;
}
static void vs_reset_more(void);
/* DFCC treats every static object as unknown at the start of an entry: everything the stubs rely on is
 * (re)assigned here, including the function-pointer tables */
static void vs_reset_all(void)
{
    gs_probe.refcount = NULL; gs_probe.uprobe_throw = stub_probe_throw; gs_probe.next = NULL;
    gs_udict_mgr.refcount = NULL; gs_udict_mgr.udict_alloc = stub_udict_alloc; gs_udict_mgr.udict_control = stub_udict_control;
    gs_udict_mgr.udict_free = stub_udict_free; gs_udict_mgr.udict_mgr_control = stub_udict_mgr_control;
    gs_uref_mgr.refcount = NULL; gs_uref_mgr.control_attr_size = 0; gs_uref_mgr.udict_mgr = &gs_udict_mgr;
    gs_uref_mgr.uref_alloc = stub_uref_alloc; gs_uref_mgr.uref_free = stub_uref_free; gs_uref_mgr.uref_mgr_control = NULL;
    gs_out_mgr.refcount = NULL; gs_out_mgr.signature = 0x6f757430; gs_out_mgr.upipe_err_str = NULL;
    gs_out_mgr.upipe_command_str = NULL; gs_out_mgr.upipe_event_str = NULL; gs_out_mgr.upipe_alloc = NULL;
    gs_out_mgr.upipe_input = stub_out_input; gs_out_mgr.upipe_control = stub_out_control; gs_out_mgr.upipe_mgr_control = NULL;
    vs_probe_reset(); vs_out_reset(1); vs_reset_more();
    gs_udict_live = gs_uref_live = gs_uref_freed = 0; gs_uref_last_freed = NULL;
}
#endif

/* ------------------------------------------------------------------ other interfaces (opaque stubs) */
#include <upipe/ubuf.h>
#include <upipe/upump.h>
/* a buffer manager that knows nothing about content: every control answers arbitrarily and has no effect
 * (units that reason about payloads use the real ubuf_block_mem manager instead) */
static int gs_ubuf_live, gs_ubuf_freed;
static struct ubuf_mgr gs_ubuf_mgr;
static int stub_ubuf_control(struct ubuf *ubuf, int command, va_list args)
{
    return VS_CHOICE(ubuf_ctl_ret) & 1 ? UBASE_ERR_NONE : UBASE_ERR_INVALID;
}
static void stub_ubuf_free(struct ubuf *ubuf) { gs_ubuf_live--; if (gs_ubuf_freed < 1000000) gs_ubuf_freed++; free(ubuf); }
static struct ubuf *vs_make_ubuf(void)
{
    struct ubuf *b = malloc(sizeof(*b));
    if (b == NULL) return NULL;
    b->mgr = &gs_ubuf_mgr; uchain_init(&b->uchain); gs_ubuf_live++;
    return b;
}
/* event loop: pumps are opaque tokens; start/stop/free are counted */
static struct upump_mgr gs_upump_mgr;
static struct upump gs_upump;
static int gs_pump_alloc, gs_pump_start, gs_pump_stop, gs_pump_free;
static struct upump *stub_upump_alloc(struct upump_mgr *mgr, int event, va_list args)
{
    if (VS_CHOICE(upump_alloc_fails) & 1) return NULL;
    gs_pump_alloc++; gs_upump.mgr = &gs_upump_mgr;
    return &gs_upump;
}
static int stub_upump_control(struct upump *upump, int command, va_list args)
{
    if (command == UPUMP_START) gs_pump_start++;
    else if (command == UPUMP_STOP) gs_pump_stop++;
    else if (command == UPUMP_FREE) gs_pump_free++;
    else if (command == UPUMP_ALLOC_BLOCKER) { struct upump_blocker **p = va_arg(args, struct upump_blocker **); *p = NULL; }
    return UBASE_ERR_NONE;
}
/* requests: the upstream requester's callbacks */
static int gs_req_provided, gs_req_freed;
static int stub_urequest_provide(struct urequest *urequest, va_list args) { if (gs_req_provided < 1000000) gs_req_provided++; return UBASE_ERR_NONE; }
static void stub_urequest_free(struct urequest *urequest) { if (gs_req_freed < 1000000) gs_req_freed++; }
static const char *stub_str(int v) { return NULL; }
static void *gs_keep[8];       /* keeps otherwise unreferenced stubs in the binary (restriction targets) */
static void vs_reset_more(void)
{
    gs_keep[0] = (void *)stub_str; gs_keep[1] = (void *)stub_urequest_provide; gs_keep[2] = (void *)stub_urequest_free;
    gs_keep[3] = (void *)vs_make_ubuf; gs_keep[4] = (void *)vs_make_uref;
    gs_ubuf_mgr.refcount = NULL; gs_ubuf_mgr.signature = 0; gs_ubuf_mgr.ubuf_alloc = NULL;
    gs_ubuf_mgr.ubuf_control = stub_ubuf_control; gs_ubuf_mgr.ubuf_free = stub_ubuf_free; gs_ubuf_mgr.ubuf_mgr_control = NULL;
    gs_upump_mgr.refcount = NULL; gs_upump_mgr.signature = 0; gs_upump_mgr.opaque = NULL;
    gs_upump_mgr.upump_alloc = stub_upump_alloc; gs_upump_mgr.upump_control = stub_upump_control; gs_upump_mgr.upump_mgr_control = NULL;
    gs_ubuf_live = gs_ubuf_freed = gs_pump_alloc = gs_pump_start = gs_pump_stop = gs_pump_free = gs_req_provided = gs_req_freed = 0;
}

/* ------------------------------------------------------------------ pipe construction helpers */
#ifndef VPIPE_HELPERS
#define VPIPE_HELPERS
/* the manager table as its static initialiser gives it (statics are unknown under DFCC) */
#define VPIPE_INIT_MGR(m, sig, alloc, input, control) do { \
    (m).refcount = NULL; (m).signature = (sig); (m).upipe_err_str = NULL; (m).upipe_command_str = NULL; \
    (m).upipe_event_str = NULL; (m).upipe_alloc = (alloc); (m).upipe_input = (input); \
    (m).upipe_control = (control); (m).upipe_mgr_control = NULL; } while (0)
/* the public part of a pipe as upipe_init + init_urefcount leave it, holding `refs` references */
#define VPIPE_INIT_UPIPE(up, mgrp, rc, deadcb, refs) do { \
    (up)->mgr = (mgrp); (up)->uprobe = &gs_probe; (up)->opaque = NULL; uchain_init(&(up)->uchain); \
    (up)->refcount = (rc); (rc)->refcount = (refs); (rc)->cb = (deadcb); } while (0)
#endif
