/* vstub_choice.h — replayable nondeterministic choices of stubs (see vstub_pipe.h) */
#ifndef VSTUB_CHOICE_H
#define VSTUB_CHOICE_H
#include "vspec.h"
/* "arbitrary" answers of the stubs: each one is assigned to gs_vsc so that a counterexample trace carries
 * it (assignments to gs_vsc, in call order); the native replay reads them back in the same order
 * (snapshot keys vsc#<k>) — the replayed execution makes the same choices in the same order */
static unsigned long long gs_vsc;
#ifdef VNATIVE
static inline unsigned long long vs_choice(void)
{
    static int k; char key[64]; snprintf(key, sizeof(key), "vsc#%d", k++);
    unsigned long long v = 0; vn_read_quiet(key, &v, sizeof(v)); return v;
}
#define VS_CHOICE(name) (gs_vsc = vs_choice())
#else
unsigned long long nondet_vs_choice(void);
#define VS_CHOICE(name) (gs_vsc = nondet_vs_choice())
#endif

#endif
