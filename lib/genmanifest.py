#!/usr/bin/env python3
"""writes /verif/MANIFEST.json from the table below (kept in one place so that it always validates)"""
import json, os
V = os.path.dirname(os.path.dirname(os.path.abspath(__file__)))
TECH = 'contract-based deductive verification of the real C code: CBMC 6.11 code contracts (requires/ensures/assigns) enforced per function by goto-instrument --dfcc, obligations discharged by cbmc (CaDiCaL)'
claims = json.load(open(os.path.join(V, 'lib', 'claims.json')))
checks = []
for c in claims['checks']:
    pid = c['id']
    checks.append({
        'property_id': pid,
        'quick_cmd': 'bin/vcheck %s --tier quick' % pid,
        'thorough_cmd': 'bin/vcheck %s --tier thorough' % pid,
        'evidence_file': 'evidence/%s.json' % pid,
        'replay_cmd_template': 'bin/vcheck --replay {path}',
        'engine': 'vcheck',
        'level_claimed': {'category': c['category'], 'text': c['text'], 'design_ref': c.get('design_ref', 'DESIGN.md §6 ' + pid)},
        'level_note': c['note'],
        'technique': c.get('technique', TECH),
    })
m = {
    'version': 1,
    'setup_cmd': 'bin/setup',
    'hooks': {'guard': 'UPIPE_VERIF', 'enable': 'checks compile the real sources with goto-cc -DUPIPE_VERIF (no rebuild of the library is needed: contract units #include the /repo files)',
              'baseline_off_cmd': 'make -C /repo -j8 check', 'source_commits': claims.get('hook_commits', []), 'add_only': True},
    'engines': [{'name': 'vcheck', 'path': 'bin/vcheck', 'serves_properties': [c['id'] for c in claims['checks']],
                 'kind_free_text': 'driver for contract units: goto-cc -> goto-instrument --dfcc --enforce-contract -> cbmc; counterexample inputs replayed natively (gcc + ASan/UBSan) on the real function with the same spec predicates'}],
    'checks': checks,
    'notes': claims.get('notes', ''),
    'not_applicable': claims['not_applicable'],
}
json.dump(m, open(os.path.join(V, 'MANIFEST.json'), 'w'), indent=1)
print('MANIFEST.json: %d checks, %d not_applicable' % (len(checks), len(m['not_applicable'])))
