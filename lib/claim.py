#!/usr/bin/env python3
"""claim.py <id> <category> <text> <note>  — add/replace a claimed check in lib/claims.json and regenerate MANIFEST.json"""
import json, sys, os, subprocess
V = os.path.dirname(os.path.dirname(os.path.abspath(__file__)))
p = os.path.join(V, 'lib', 'claims.json')
c = json.load(open(p))
pid, cat, text, note = sys.argv[1:5]
c['checks'] = [x for x in c['checks'] if x['id'] != pid] + [{'id': pid, 'category': cat, 'text': text, 'note': note}]
c['checks'].sort(key=lambda x: x['id'])
c['not_applicable'] = [x for x in c['not_applicable'] if x['property_id'] != pid]
json.dump(c, open(p, 'w'), indent=1)
subprocess.run([sys.executable, os.path.join(V, 'lib', 'genmanifest.py')])
