#!/usr/bin/env python3
"""writes contracts/block_mem/unit.json"""
import json, os
V = os.path.dirname(os.path.dirname(os.path.abspath(__file__)))
RECUR = ['ubuf_free:2', 'ubuf_block_mem_free:2', 'ubuf_block_common_clean:2', 'ubuf_block_mem_dup:2', 'ubuf_block_common_dup:2', 'ubuf_dup:2',
         'ubuf_control:3', 'ubuf_control_va:3', 'ubuf_block_mem_control:3', 'ubuf_block_mem_splice:2', 'ubuf_block_common_splice:2',
         'ubuf_block_common_clean.0:4', 'ubuf_block_common_dup.0:4', 'ubuf_block_common_splice.0:4']
def recur(n):
    # recursion through the manager (dup of the next segment inside dup / splice, free of the next segment inside free)
    # is as deep as the chain is long; loops over the chain likewise (+1 for the exit test)
    r = ['%s:%d' % (f, n) for f in ('ubuf_free', 'ubuf_block_mem_free', 'ubuf_block_common_clean', 'ubuf_block_mem_dup', 'ubuf_block_common_dup', 'ubuf_dup',
                                    'ubuf_block_mem_splice', 'ubuf_block_common_splice')]
    r += ['%s:%d' % (f, n + 1) for f in ('ubuf_control', 'ubuf_control_va', 'ubuf_block_mem_control')]
    r += ['%s.0:%d' % (f, n + 1) for f in ('ubuf_block_common_clean', 'ubuf_block_common_dup', 'ubuf_block_common_splice')]
    return r
groups = [{'name': 'mem_alloc', 'entry': 'h_mem_alloc', 'enforce': None, 'dfcc': False, 'unwind': 7, 'timeout': 300, 'properties': ['C03', 'C02', 'C01'],
           'object_bits': 8}]
for fn, props in (('single', ['C02']), ('write', ['C02']), ('splice_direct', ['C02', 'C03', 'C01']), ('dup', ['C02', 'C03', 'C01']), ('splice', ['C02', 'C03', 'C01']), ('free', ['C01', 'C09', 'C02'])):
    for nseg, tier in ((1, 'quick'), (2, 'quick'), (3, 'thorough')):
        if fn == 'splice':
            tier = 'thorough'       # measured: > 400 s per shape (symbolic offset/size through ubuf_block_common_splice)
        if fn in ('single', 'write', 'dup', 'splice', 'splice_direct') and nseg > 2:
            continue          # (3-segment dup / splice exhaust 12 GB of solver memory: shape bound stays 2)
        groups.append({'name': 'mem_%s_s%d' % (fn, nseg), 'entry': 'h_mem_' + fn, 'enforce': None, 'dfcc': False, 'defines': ['NSEG=%d' % nseg],
                       'unwind': 7, 'unwindset': recur(nseg), 'timeout': 900 if tier == 'quick' else 2400, 'tier': tier, 'properties': props, 'cost': 3 * nseg,
                       'bounded': 'block of %d segment(s)' % nseg, 'object_bits': 8})
u = {
 'unit': 'block_mem', 'properties': ['C02'], 'source': 'contract.c',
 'files': ['lib/upipe/ubuf_block_mem.c', 'lib/upipe/ubuf_mem_common.c', 'include/upipe/ubuf_block_common.h', 'include/upipe/ubuf_mem_common.h',
           'include/upipe/ubuf_block.h (append, splice, write as callers)'],
 'fp': {'ubuf_alloc': ['ubuf_block_mem_alloc'], 'ubuf_control': ['ubuf_block_mem_control'], 'ubuf_free': ['ubuf_block_mem_free'],
        'alloc_cb': ['stub_cnt_blk_alloc', 'stub_cnt_sh_alloc'], 'free_cb': ['stub_cnt_blk_free', 'stub_cnt_sh_free'],
        'umem_alloc': ['stub_umem_alloc'], 'umem_free': ['stub_umem_free'], 'cb': ['stub_umem_rc_cb', 'stub_mgr_rc_cb'],
        'ubuf_mgr_control': ['ubuf_block_mem_mgr_control']},
 'external': ['ubuf_pic_mem_get_shared', 'ubuf_sound_mem_get_shared'],
 'trusted_base': ['umem manager stub (stub_umem_alloc/free: malloc/free with a live counter, allocation may fail) = the far side of umem_mgr\'s function pointers',
                  'upool_init/alloc/free/vacuum/clean replaced by their depth-0 behaviour (stub_upool_*: alloc_cb / free_cb plus one manager reference per live structure); the lock-free pool itself is C07 (not applicable)',
                  'pool callbacks wrapped by counting stubs that call the real ubuf_block_mem_alloc_inner / ubuf_mem_shared_alloc_inner'],
 'assumptions': [
  'block_mem: contracts are checked by assume/assert entries (no DFCC instrumentation), frame stated through explicit postconditions (original block unchanged, live-object counters); blocks of 1..2 (quick) / 3 (thorough) segments built by the real alloc + append, windows and extra holders symbolic, areas <= 4096 octets, manager prepend/append <= 1024, align <= 64',
  'block_mem: structure pools of depth 0 only (upool falls through to malloc/free); recycling pools (depth > 0) are lock-free structures (C07, not applicable)',
  'block_mem: allocation from picture / sound planes (UBUF_BLOCK_MEM_ALLOC_FROM_PIC/SOUND) not covered; alignment of the returned window not covered (pointer-to-integer arithmetic)',
  'sequential execution: counts are read as plain integers by the specification',
 ],
 'groups': groups,
}
json.dump(u, open(os.path.join(V, 'contracts', 'block_mem', 'unit.json'), 'w'), indent=1)
print(len(groups), 'groups')
