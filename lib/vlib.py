#!/usr/bin/env python3
"""vlib — driver for contract units (CBMC code contracts, DFCC) over the real Upipe sources.

A unit is /verif/contracts/<unit>/{unit.json, contract.c[, spec.h]}.  A group of
a unit is one enforcement run:  goto-cc -> goto-instrument --dfcc <entry>
--enforce-contract <fn> [--replace-call-with-contract g]* [--apply-loop-contracts]
-> cbmc --show-properties (filter) -> cbmc --property ... --trace --json-ui.
"""
import json, os, re, subprocess, sys, time, shutil, hashlib, concurrent.futures

VERIF = os.path.dirname(os.path.dirname(os.path.abspath(__file__)))
CONTRACTS = os.path.join(VERIF, 'contracts')
BUILD = os.path.join(VERIF, 'build')
import atexit
_MAIN_PID = os.getpid()
def _cleanup_build():
    if os.getpid() == _MAIN_PID and not os.environ.get('VERIF_KEEP_BUILD'):
        shutil.rmtree(os.path.join(BUILD, 'p%d' % _MAIN_PID), ignore_errors=True)
atexit.register(_cleanup_build)
MEM_KB = 12 * 1024 * 1024          # ulimit -v per tool process
CANARY_TAG = 'VCANARY'

# obligation classes that are listed but not part of the verdict (see DESIGN §3.4):
#  * pointer_arithmetic "pointer relation": forming p+4 for a comparison with the end pointer
#    is not a memory access; every dereference/bounds obligation is kept.
#  * signed shl overflow: `uint8 << 24` promoted to int; defined by gcc/clang, which is what runs.
def excluded_class(p):
    c = p.get('class', '')
    d = p.get('description', '')
    if '.pointer_arithmetic.' in p.get('name', '') or c in ('pointer_arithmetic', 'pointer arithmetic'):
        return 'pointer_arithmetic'
    if c == 'overflow' and 'signed shl' in d:
        return 'signed-shl-overflow'
    return None

# default targets of the function-pointer interfaces (stubs/vstub_pipe.h); a unit's "fp" adds to / overrides them
DEFAULT_FP = {
    'uprobe_throw': ['stub_probe_throw'], 'udict_control': ['stub_udict_control'], 'udict_alloc': ['stub_udict_alloc'],
    'udict_free': ['stub_udict_free'], 'uref_alloc': ['stub_uref_alloc'], 'uref_free': ['stub_uref_free'],
    'upipe_input': ['stub_out_input'], 'upipe_control': ['stub_out_control'], 'cb': ['stub_out_dead'],
    'ubuf_control': ['stub_ubuf_control'], 'ubuf_free': ['stub_ubuf_free'],
    'upump_alloc': ['stub_upump_alloc'], 'upump_control': ['stub_upump_control'],
    'urequest_provide': ['stub_urequest_provide'], 'urequest_free': ['stub_urequest_free'],
    'udict_mgr_control': ['stub_udict_mgr_control'],
    'upipe_command_str': ['stub_str'], 'upipe_err_str': ['stub_str'], 'upipe_event_str': ['stub_str'],
}

BASE_CHECKS = ['--bounds-check', '--pointer-check', '--div-by-zero-check',
               '--undefined-shift-check', '--signed-overflow-check',
               '--pointer-primitive-check', '--unwinding-assertions']


def sh(cmd, timeout, cwd=None, out=None):
    """run a tool with a memory limit; returns (rc, stdout, stderr, seconds); rc=-9 on timeout"""
    t0 = time.time()
    pre = 'ulimit -v %d; exec "$@"' % MEM_KB
    try:
        p = subprocess.run(['/bin/sh', '-c', pre, 'sh'] + cmd, cwd=cwd, stdin=subprocess.DEVNULL,
                           stdout=subprocess.PIPE, stderr=subprocess.PIPE, timeout=timeout)
        return p.returncode, p.stdout.decode('utf-8', 'replace'), p.stderr.decode('utf-8', 'replace'), time.time() - t0
    except subprocess.TimeoutExpired as e:
        return -9, (e.stdout or b'').decode('utf-8', 'replace'), (e.stderr or b'').decode('utf-8', 'replace'), time.time() - t0


def load_units():
    units = []
    for d in sorted(os.listdir(CONTRACTS)):
        f = os.path.join(CONTRACTS, d, 'unit.json')
        if os.path.isfile(f):
            u = json.load(open(f))
            u['dir'] = os.path.join(CONTRACTS, d)
            u.setdefault('unit', d)
            for g in u['groups']:
                g.setdefault('properties', u.get('properties', []))
                g.setdefault('tier', 'quick')
                g.setdefault('replace', [])
                g.setdefault('defines', [])
                g.setdefault('source', u.get('source', 'contract.c'))
                g.setdefault('timeout', 300)
                g.setdefault('bounded', None)
                g.setdefault('native', True)
                g.setdefault('entry', None)
            units.append(u)
    return units


def json_objs(text):
    try:
        return json.loads(text)
    except Exception:
        return None


def include_flags(repo, unit):
    fl = ['-DVCBMC', '-DUPIPE_VERIF', '-DHAVE_CONFIG_H', '-I' + repo, '-I' + os.path.join(repo, 'include'),
          '-I' + os.path.join(VERIF, 'include'), '-I' + os.path.join(VERIF, 'stubs'), '-I' + unit['dir']]
    for i in unit.get('include_dirs', []):
        fl.append('-I' + os.path.join(repo, i))
    return fl


def run_group(repo, unit, g, variant_defs=(), tag=''):
    """returns a dict describing the outcome of one enforcement run"""
    name = g['name'] + tag
    wd = os.path.join(BUILD, 'p%d' % os.getpid(), unit['unit'], name)      # per process: concurrent checks may share units
    shutil.rmtree(wd, ignore_errors=True)
    os.makedirs(wd)
    res = {'unit': unit['unit'], 'group': name, 'entry': g['entry'], 'enforce': g.get('enforce'),
           'replace': g['replace'], 'bounded': g['bounded'], 'status': 'error', 'obligations': [],
           'failed': [], 'excluded': {}, 'canary': None, 'seconds': {}, 'detail': '', 'properties': g['properties']}
    src = os.path.join(unit['dir'], g['source'])
    defs = ['-D' + d for d in list(g['defines']) + list(variant_defs)]
    if g.get('dfcc', True) is False:
        defs.append('-DVHARNESS')
    t_all = time.time()
    if g.get('kind') == 'smt':
        return run_smt_lemma(unit, g, res, wd)
    # 1. compile the real code + contracts
    cmd = ['goto-cc'] + include_flags(repo, unit) + defs + ['--function', g['entry'], src, '-o', 'a.gb']
    rc, so, se, dt = sh(cmd, 300, cwd=wd)
    res['seconds']['goto-cc'] = round(dt, 2)
    res['cmd_goto_cc'] = ' '.join(cmd)
    if rc != 0:
        res['detail'] = 'goto-cc failed: ' + (se + so)[-1500:]
        return res
    # 2a. link the CPROVER C library first (goto-instrument --dfcc crashes in its own library linking step on
    #     some pipe translation units: invariant 'symbol expressions with source locations')
    if g.get('dfcc', True) is False:
        # assume/assert groups: cbmc links its library itself (linking it early makes symex lose constant
        # propagation through malloc / atomics, measured: recursion through release callbacks is then not resolved)
        shutil.copy(os.path.join(wd, 'a.gb'), os.path.join(wd, 'a1.gb'))
    else:
        cmd = ['goto-instrument', '--add-library', 'a.gb', 'a1.gb']
        rc, so, se, dt = sh(cmd, 300, cwd=wd)
        if rc != 0:
            res['detail'] = 'goto-instrument --add-library failed: ' + (se + so)[-1500:]
            return res
    # 2b. restrict function-pointer call sites to the targets the unit names for each interface member
    #     (CBMC's default candidate set is every address-taken function of a loosely compatible type, which
    #     sends e.g. udict->mgr->udict_control(...) into the pipe's own control function). The restriction is
    #     itself an obligation: goto-instrument asserts that the pointer is one of the listed targets.
    fp = {}
    if unit.get('fp') is not None or g.get('fp') is not None:
        fp = {k_: list(v_) for k_, v_ in DEFAULT_FP.items()}
        for k_, v_ in list((unit.get('fp') or {}).items()) + list((g.get('fp') or {}).items()):
            fp[k_] = fp.get(k_, []) + [t for t in v_ if t not in fp.get(k_, [])]
    src_gb = 'a1.gb'
    if fp:
        rc, so, se, dt = sh(['goto-instrument', '--show-goto-functions', 'a1.gb'], 300, cwd=wd)
        existing = set(re.findall(r'^([\w$]+) /\* ', so, re.M))
        cur = None; count = {}; restr = []; unrestricted = []
        for line in so.splitlines():
            m = re.match(r'^([\w$]+) /\* ', line)
            if m:
                cur = m.group(1); continue
            m = None
            if 'CALL' in line and re.search(r'CALL (?:[^(]*? := )?\*', line):
                m = re.search(r'CALL (?:[^(]*? := )?\*\(?.*?\.(\w+)\)\(', line) or \
                    re.search(r'CALL (?:[^(]*? := )?\*(?:[\w$]+::)*(\w+)\(', line)
            if m and cur:
                count[cur] = count.get(cur, 0) + 1
                member = m.group(1)
                label = '%s.function_pointer_call.%d' % (cur, count[cur])
                if fp.get(member) and '*' in fp.get(member):          # '*': leave this interface member to cbmc's own candidate set
                    unrestricted.append(label + ' (' + member + ', by request)'); continue
                tg = [t for t in fp.get(member, []) if t in existing]
                if tg:
                    restr.append(label + '/' + ','.join(tg))
                else:
                    unrestricted.append(label + ' (' + member + ')')
        res['fp_restricted'] = len(restr); res['fp_unrestricted'] = unrestricted
        if restr:
            cmd = ['goto-instrument']
            for r_ in restr:
                cmd += ['--restrict-function-pointer', r_]
            cmd += ['a1.gb', 'a2.gb']
            rc, so, se, dt = sh(cmd, 300, cwd=wd)
            if rc != 0:
                res['detail'] = 'goto-instrument --restrict-function-pointer failed: ' + (se + so)[-1500:]
                return res
            src_gb = 'a2.gb'
    # 2c. CBMC limitation: DFCC's write-set parameter is lost across a variadic function, so frame ("is
    #     assignable") obligations located in or below a variadic function cannot be checked; they are
    #     identified here (call graph below every variadic function) and removed from the obligation list,
    #     counted in evidence under 'assigns-below-variadic'. Frames of those parts rest on explicit postconditions.
    below_variadic = set()
    rc, so1, se, dt = sh(['goto-instrument', '--show-symbol-table', src_gb], 300, cwd=wd)
    variadic = set()
    cur = None
    for line in so1.splitlines():
        if line.startswith('Symbol......: '):
            cur = line[len('Symbol......: '):].strip()
        elif line.startswith('Type........: ') and cur and re.search(r',\s*\.\.\.\)\s*$', line):
            variadic.add(cur)
    if variadic:
        rc, so2, se, dt = sh(['goto-instrument', '--call-graph', src_gb], 300, cwd=wd)
        edges = {}
        for line in so2.splitlines():
            m = re.match(r'^([\w$]+) -> ([\w$]+)$', line.strip())
            if m:
                edges.setdefault(m.group(1), set()).add(m.group(2))
        # only variadic functions the function under contract can reach matter (the entry's own variadic
        # trampolines sit above the contract wrapper, which creates a fresh write set)
        reach = set(); todo = [g['enforce']] if g.get('enforce') else []
        while todo:
            f = todo.pop()
            if f in reach:
                continue
            reach.add(f); todo.extend(edges.get(f, ()))
        todo = [v for v in variadic if v in reach]
        while todo:
            f = todo.pop()
            if f in below_variadic:
                continue
            below_variadic.add(f)
            todo.extend(edges.get(f, ()))
    # 2. contract instrumentation  (groups with "dfcc": false check the same pre/post predicates through the entry's
    #    assume(pre) / assert(post) — used where DFCC's write-set instrumentation exhausts memory on unwound chain loops;
    #    such groups carry their frame as explicit postconditions and are always labelled bounded)
    if g.get('dfcc', True) is False:
        cmd = ['goto-instrument', '--drop-unused-functions', src_gb, 'b.gb']
        rc, so, se, dt = sh(cmd, 300, cwd=wd)
        res['cmd_goto_instrument'] = ' '.join(cmd) + '   (no contract instrumentation: assume/assert harness)'
        if rc != 0:
            res['detail'] = 'goto-instrument --drop-unused-functions failed: ' + (se + so)[-1500:]
            return res
        return run_cbmc_stage(repo, unit, g, res, wd, below_variadic, t_all, ['--function', g['entry']])
    cmd = ['goto-instrument', '--dfcc', g['entry']]
    if g.get('enforce'):
        cmd += ['--enforce-contract', g['enforce']]
    for r in g['replace']:
        cmd += ['--replace-call-with-contract', r]
    if g.get('loop_contracts'):
        cmd += ['--apply-loop-contracts']
    cmd += g.get('instrument_flags', [])
    cmd += [src_gb, 'b.gb']
    rc, so, se, dt = sh(cmd, 600, cwd=wd)
    res['seconds']['goto-instrument'] = round(dt, 2)
    res['cmd_goto_instrument'] = ' '.join(cmd)
    open(os.path.join(wd, 'instrument.log'), 'w').write(so + se)
    if rc != 0:
        res['detail'] = 'goto-instrument failed: ' + (se + so)[-1500:]
        return res
    for bad in ('no candidates for dereferenced function pointer',):
        if bad in so + se:
            res['detail'] = 'goto-instrument: ' + bad
            return res
    return run_cbmc_stage(repo, unit, g, res, wd, below_variadic, t_all, [])


def run_cbmc_stage(repo, unit, g, res, wd, below_variadic, t_all, extra_opts):
    # 2d. syntactic side condition (C09): the function's body touches the counter field only as the
    #     address argument of a uatomic_* call (a sequentially checked contract cannot see a split RMW
    #     made of plain accesses)
    scan_fail = None
    if g.get('scan_atomic'):
        sc = g['scan_atomic']
        rc, so3, se, dt = sh(['goto-instrument', '--show-goto-functions', 'a1.gb'], 300, cwd=wd)
        body = []; on = False
        for line in so3.splitlines():
            m = re.match(r'^([\w$]+) /\* ', line)
            if m:
                on = (m.group(1) == sc['function']); continue
            if on:
                body.append(line)
        if not body:
            res['detail'] = 'scan_atomic: function %s not found' % sc['function']
            return res
        bad = []
        for line in body:
            if re.search(r'(->|\.)%s\b' % re.escape(sc['field']), line):
                stripped = re.sub(r'CALL [^\n]*?uatomic_\w+\(address_of\([^()]*?(->|\.)%s\)' % re.escape(sc['field']), 'CALL uatomic(', line)
                if re.search(r'(->|\.)%s\b' % re.escape(sc['field']), stripped):
                    bad.append(line.strip()[:200])
        res['scan_atomic'] = {'function': sc['function'], 'plain_accesses': bad}
        if bad:
            scan_fail = bad
    # 3. property list, filtered
    checks = list(g.get('checks', BASE_CHECKS))
    if g.get('memory_leak'):
        checks.append('--memory-leak-check')
    opts = ['--no-standard-checks'] + checks
    if g.get('unwind') is not None:
        opts += ['--unwind', str(g['unwind'])]
    if g.get('unwindset'):
        opts += ['--unwindset', ','.join(g['unwindset'])]
    opts += ['--object-bits', str(g.get('object_bits', 10))]
    opts += g.get('cbmc_flags', []) + list(extra_opts)
    cmd = ['cbmc', 'b.gb'] + opts + ['--show-properties', '--json-ui']
    rc, so, se, dt = sh(cmd, 300, cwd=wd)
    props = []
    d = json_objs(so)
    if d is None:
        res['detail'] = 'cbmc --show-properties failed: ' + (se + so)[-1500:]
        return res
    for e in d:
        if isinstance(e, dict) and 'properties' in e:
            props = e['properties']
    keep = []
    for p in props:
        ex = excluded_class(p)
        m = re.match(r'^([\w$]+)\.assigns\.\d+$', p['name'])
        if m and m.group(1) in below_variadic:
            ex = 'assigns-below-variadic'
        if below_variadic and p['name'].startswith('__CPROVER_contracts_write_set_check_assignment.unwind'):
            ex = 'assigns-below-variadic'
        if ex:
            res['excluded'][ex] = res['excluded'].get(ex, 0) + 1
        else:
            keep.append(p['name'])
    if not keep:
        res['detail'] = 'no obligations generated'
        return res
    # 4. discharge
    solver = g.get('solver', ['--sat-solver', 'cadical'])
    cmd = ['cbmc', 'b.gb'] + opts + solver + ['--trace', '--json-ui']
    for k in keep:
        cmd += ['--property', k]
    res['cmd_cbmc'] = ' '.join(['cbmc', 'b.gb'] + opts + solver + ['--trace', '--json-ui', '--property <each kept obligation>'])
    tmo = min(g['timeout'], int(os.environ.get('VERIF_TIMEOUT_CAP', '100000')))
    rc, so, se, dt = sh(cmd, tmo, cwd=wd)
    res['seconds']['cbmc'] = round(dt, 2)
    open(os.path.join(wd, 'cbmc.json'), 'w').write(so)
    open(os.path.join(wd, 'cbmc.err'), 'w').write(se)
    if rc == -9:
        res['status'] = 'timeout'
        res['detail'] = 'cbmc exceeded %ds' % g['timeout']
        return res
    d = json_objs(so)
    if d is None:
        res['status'] = 'error'
        res['detail'] = 'cbmc output not parsable (rc %d): %s' % (rc, (se + so)[-800:])
        return res
    results = None
    warnings = []
    if 'Solver ran out of memory' in so or 'Out of memory' in se:
        res['detail'] = 'solver ran out of memory (ulimit -v %d kB)' % MEM_KB
        return res
    for e in d:
        if not isinstance(e, dict):
            continue
        if 'result' in e:
            results = e['result']
        if e.get('messageType') in ('WARNING', 'ERROR'):
            warnings.append(e.get('messageText', ''))
    res['warnings'] = [w for w in warnings if 'not enough arguments' in w or 'ignoring' in w or 'no body for' in w][:20]
    if results is None:
        res['detail'] = 'cbmc gave no result (rc %d): %s' % (rc, ' | '.join(warnings)[-800:] + se[-400:])
        return res
    for w in warnings:
        if 'not enough arguments' in w:
            res['detail'] = 'spec call tree shared between contract and entry: ' + w
            return res
        if 'no body for' in w:
            fn = re.search(r"no body for (?:function|callee) '?([\w$]+)", w)
            fname = fn.group(1) if fn else w
            if not (fname.startswith('nondet_') or fname in unit.get('external', []) or fname in g.get('external', [])):
                res['detail'] = 'missing function body (renamed or removed?): ' + w
                return res
    exp_loop = g.get('loop_contracts')
    seen_loop = False
    for r in results:
        o = {'id': r['property'], 'description': r.get('description', ''), 'status': r['status'],
             'file': r.get('sourceLocation', {}).get('file', ''), 'line': r.get('sourceLocation', {}).get('line', ''),
             'function': r.get('sourceLocation', {}).get('function', '')}
        if 'loop_invariant_step' in r['property'] or 'loop invariant' in o['description']:
            seen_loop = True
        if CANARY_TAG in o['description'] and o['function'] not in (g['entry'], ''):
            continue            # another entry's canary (not reachable from this entry)
        if CANARY_TAG in o['description']:
            res['canary'] = (r['status'] == 'FAILURE')
            continue
        res['obligations'].append(o)
        if r['status'] != 'SUCCESS':
            o['trace'] = r.get('trace', [])
            res['failed'].append(o)
            # a failing built-in check located inside the specification itself is a defect of the
            # specification (undecided), never a violation of the code
            fn = o['function']
            if r['status'] == 'FAILURE' and '.no_body.' in o['id']:
                nb = o['id'].split('.no_body.')[-1]
                if nb.startswith('nondet_') or nb in unit.get('external', []) or nb in g.get('external', []):
                    o['status'] = 'SUCCESS'; res['failed'].remove(o); continue
                res['detail'] = 'missing function body (renamed, removed or unmodelled library function): ' + nb
                res['spec_error'] = True; o['id'] = o['id'].replace('.no_body.', '.unwind.no_body.')
            if r['status'] == 'FAILURE' and '.unwind.' in o['id']:
                res['detail'] = 'unwinding bound too small (not a violation): %s %s' % (o['id'], o['description'])
                res['spec_error'] = True
            if r['status'] == 'FAILURE' and re.match(r'(spec_|pre_|post_|H_|stub_|h_)', fn) and \
               not re.search(r'\.(assertion|postcondition|precondition)\.', o['id']):
                res['detail'] = 'built-in check failed inside specification code: %s %s' % (o['id'], o['description'])
                res['spec_error'] = True
    res['seconds']['total'] = round(time.time() - t_all, 2)
    if g.get('scan_atomic'):
        o = {'id': 'scan.%s.counter_only_through_uatomic' % g['scan_atomic']['function'],
             'description': 'syntactic scan: %s accesses field %s only as the address argument of uatomic_* calls%s' %
                            (g['scan_atomic']['function'], g['scan_atomic']['field'], (' — plain accesses: ' + ' | '.join(scan_fail)) if scan_fail else ''),
             'status': 'FAILURE' if scan_fail else 'SUCCESS', 'file': '', 'line': '', 'function': g['scan_atomic']['function'], 'trace': []}
        res['obligations'].append(o)
        if scan_fail:
            res['failed'].append(o)
    if res['canary'] is None:
        res['detail'] = 'no canary obligation in entry'
        return res
    if res['canary'] is False:
        res['status'] = 'vacuous'
        res['detail'] = 'canary was not reachable: preconditions contradictory'
        return res
    if exp_loop and not seen_loop:
        res['detail'] = 'loop contract expected but no loop invariant obligation generated'
        return res
    if g.get('enforce') and not any('postcondition' in o['id'] or 'postcondition' in o['description'].lower() for o in res['obligations']):
        res['detail'] = 'no postcondition obligation generated'
        return res
    if res.get('spec_error'):
        # failures inside specification / stub code are a defect of the specification — unless real code fails a
        # built-in check as well (e.g. a NULL pointer handed to a stub by the code under verification): then the
        # failures in the stubs are consequences and the run is a violation
        real = [o for o in res['failed'] if o['status'] == 'FAILURE' and '.unwind.' not in o['id'] and
                not re.match(r'(spec_|pre_|post_|H_|stub_|h_|vs_|vn_)', o['function'] or 'h_') and
                not re.search(r'\.(assertion|postcondition|precondition)\.', o['id'])]
        # an unwinding-assertion failure only invalidates successes (paths beyond the bound are cut after it): failures of
        # postconditions / assertions / built-in checks found within the bound are genuine and are reported
        within = [o for o in res['failed'] if o['status'] == 'FAILURE' and '.unwind.' not in o['id'] and
                  CANARY_TAG not in o['description'] and
                  (re.search(r'\.(assertion|postcondition)\.', o['id']) and re.match(r'(h_|[a-z])', o['function'] or 'h_'))]
        only_unwind_or_spec = not real and not (within and any('.unwind.' in o['id'] for o in res['failed']) and
                                                 not any(re.match(r'(spec_|pre_|post_|H_|stub_|vs_|vn_)', o['function'] or '') and
                                                         '.unwind.' not in o['id'] and not re.search(r'\.(assertion|postcondition|precondition)\.', o['id'])
                                                         for o in res['failed'] if o['status'] == 'FAILURE'))
        if only_unwind_or_spec:
            res['status'] = 'error'
            return res
        res['failed'] = [o for o in res['failed'] if '.unwind.' not in o['id']]
        res['detail'] = ''
    res['status'] = 'failed' if any(o['status'] == 'FAILURE' for o in res['failed']) else ('ok' if not res['failed'] else 'error')
    if res['status'] == 'error':
        res['detail'] = 'obligations neither proved nor refuted: ' + ', '.join(o['id'] for o in res['failed'][:5])
    return res


def run_smt_lemma(unit, g, res, wd):
    """a lemma over mathematical integers that links two machine-checked contract clauses (e.g. the monotonicity
    step from 'window inside window, in samples' to 'inside the allocation, in octets'); it does not depend on the
    code. Both installed SMT solvers must answer unsat; anything else is a defect of the lemma: undecided (exit 2)."""
    f = os.path.join(unit['dir'], g['file'])
    answers = {}
    for name, cmd in (('z3', ['z3', f]), ('cvc5', ['cvc5', '--nl-ext-tplanes', f])):
        rc, so, se, dt = sh(cmd, g['timeout'], cwd=wd)
        ans = [l.strip() for l in so.splitlines() if l.strip() in ('sat', 'unsat', 'unknown')]
        answers[name] = ans[-1] if ans else 'error: ' + (so + se)[-200:]
        res['seconds'][name] = round(dt, 2)
    res['cmd_cbmc'] = 'z3 %s ; cvc5 --nl-ext-tplanes %s' % (f, f)
    ok = all(a == 'unsat' for a in answers.values())
    res['obligations'].append({'id': 'lemma.' + g['name'], 'description': 'lemma (mathematical integers, z3 and cvc5): ' + g.get('text', g['name']),
                               'status': 'SUCCESS' if ok else 'UNKNOWN', 'file': f, 'line': '', 'function': ''})
    res['canary'] = True
    if ok:
        res['status'] = 'ok'
    else:
        res['status'] = 'error'
        res['detail'] = 'lemma not proved: %r' % answers
    return res


# ---------------------------------------------------------------- counterexample -> native replay

def extract_inputs(trace, entry):
    """named nondeterministic inputs of the entry: last value of each return_value_nondet_<name>[...] leaf"""
    vals = {}
    seq = {}
    for st in trace:
        if st.get('stepType') != 'assignment':
            continue
        lhs = st.get('lhs', '')
        # stub choices (any function): one value per call, in call order
        if lhs == 'gs_vsc' and st.get('value', {}).get('binary') is not None and \
           (st.get('sourceLocation', {}).get('function') or '').startswith(('stub_', 'vs_')):
            seq.setdefault('vsc', []).append(int(st['value']['binary'], 2))
            continue
        # fields of the option units' pipe object as the entry set them
        if lhs.startswith('g_vo_obj.') and st.get('sourceLocation', {}).get('function') == entry and \
           st.get('value', {}).get('binary') is not None:
            vals['vo_obj.' + lhs[len('g_vo_obj.'):]] = int(st['value']['binary'], 2)
            continue
        if st.get('sourceLocation', {}).get('function') != entry:
            continue
        if not lhs.startswith('return_value_nondet_'):
            continue
        v = st.get('value', {})
        b = v.get('binary')
        if b is None:
            continue
        key = lhs[len('return_value_nondet_'):]
        key = re.sub(r'\[(\d+)[a-z]*\]', r'[\1]', key)       # a[3l] -> a[3]
        key = re.sub(r'_L\d+\.a\[', '[', key)                          # VIN_ARR wrapper struct
        vals[key] = int(b, 2)
    for nm, lst in seq.items():
        for k, v in enumerate(lst):
            vals['%s#%d' % (nm, k)] = v
    return vals


def native_replay(repo, unit, g, wd, inputs, tag, variant_defs=()):
    snap = os.path.join(wd, 'snapshot_%s.txt' % tag)
    with open(snap, 'w') as f:
        for k, v in sorted(inputs.items()):
            f.write('%s %d\n' % (k, v))
    exe = os.path.join(wd, 'replay_native')
    out = {'built': False, 'result': 'no-replay', 'output': ''}
    if not g.get('native', True):
        out['output'] = 'group has no native replay entry'
        return out
    if not os.path.exists(exe):
        fl = [f for f in include_flags(repo, unit) if f != '-DVCBMC']
        cmd = ['gcc', '-std=gnu11', '-g', '-O0', '-w', '-fsanitize=address,undefined', '-fno-sanitize-recover=undefined',
               '-DVNATIVE', '-DVENTRY=' + g['entry']] + fl + ['-D' + d for d in list(g['defines']) + list(variant_defs)] + \
              [os.path.join(unit['dir'], g['source']), '-o', exe] + g.get('native_libs', [])
        p = subprocess.run(cmd, stdin=subprocess.DEVNULL, stdout=subprocess.PIPE, stderr=subprocess.STDOUT)
        if p.returncode != 0:
            out['output'] = 'native build failed: ' + p.stdout.decode('utf-8', 'replace')[-1500:]
            return out
    out['built'] = True
    try:
        p = subprocess.run([exe, snap], stdin=subprocess.DEVNULL, stdout=subprocess.PIPE, stderr=subprocess.STDOUT, timeout=60,
                           env=dict(os.environ, ASAN_OPTIONS='detect_leaks=0:abort_on_error=0', UBSAN_OPTIONS='print_stacktrace=0'))
        txt = p.stdout.decode('utf-8', 'replace')
        rc = p.returncode
    except subprocess.TimeoutExpired as e:
        txt = (e.stdout or b'').decode('utf-8', 'replace') + '\n[native run did not terminate within 60 s]'
        rc = 124
    out['output'] = txt[-3000:]
    out['rc'] = rc
    if rc == 0:
        out['result'] = 'not-reproduced'
    elif rc == 3:
        out['result'] = 'inadmissible'
    else:
        out['result'] = 'reproduced'
    return out
