#!/usr/bin/env python3
"""writes contracts/block/unit.json: one group per (function, chain shape)"""
import json, os
V = os.path.dirname(os.path.dirname(os.path.abspath(__file__)))
QUICK = [(1, 0), (2, 0), (2, 1)]
THOROUGH = [(3, 0), (3, 1), (3, 2)]
funcs = [  # name, entry, enforce, second block?, enumerate cached end?, cost
    ('get', 'h_get', 'ubuf_block_get', False, False, 2),
    ('read', 'h_read', 'ubuf_block_read', False, False, 2),
    ('write', 'h_write', 'ubuf_block_write', False, False, 2),
    ('size_linear', 'h_size_linear', 'ubuf_block_size_linear', False, False, 2),
    ('append', 'h_append', 'ubuf_block_append', True, True, 3),
    ('insert', 'h_insert', 'ubuf_block_insert', True, False, 5),
    ('delete', 'h_delete', 'ubuf_block_delete', False, False, 5),
    ('truncate', 'h_truncate', 'ubuf_block_truncate', False, False, 3),
    ('resize', 'h_resize', 'ubuf_block_resize', False, False, 6),
    ('prepend', 'h_prepend', 'ubuf_block_prepend', False, False, 1),
    ('split', 'h_split', 'ubuf_block_split', False, False, 4),
    ('splice', 'h_splice', 'ubuf_block_splice', False, False, 2),
]
groups = []
for (name, entry, enforce, second, enum_ce, cost) in funcs:
    for tier, shapes in (('quick', QUICK), ('thorough', THOROUGH)):
        for (nseg, ci) in shapes:
            if name == 'delete' and nseg == 3:
                continue          # measured: > 2400 s per shape with 3 segments (delete is checked on 1..2 segments only)
            ces = list(range(-1, nseg)) if enum_ce else [None]
            nins = [1] if tier == 'quick' or not second else [1, 2]
            for ce in ces:
                for ni in nins:
                    defs = ['NSEG=%d' % nseg, 'CI=%d' % ci]
                    nm = '%s_s%dc%d' % (name, nseg, ci)
                    if ce is not None:
                        defs.append('CE=%d' % ce); nm += 'e%d' % (ce + 1)
                    if second:
                        defs.append('NINS=%d' % ni); nm += 'i%d' % ni
                    groups.append({'name': nm, 'entry': entry, 'enforce': enforce, 'defines': defs, 'unwind': 10,
                                   'dfcc': name not in ('insert', 'delete', 'resize', 'split', 'splice', 'read', 'write'),
                                   'timeout': 900 if tier == 'quick' else 2400, 'tier': tier, 'cost': cost * nseg,
                                   'bounded': 'chain of %d segment(s), cache on segment %d%s' % (nseg, ci, (', second block of %d segment(s)' % ni) if second else ''),
                                   'object_bits': 8})
u = {
 'unit': 'block', 'properties': ['C03', 'C02'], 'source': 'contract.c',
 'files': ['include/upipe/ubuf_block.h'],
 'fp': {'ubuf_control': ['stub_blk_control'], 'ubuf_free': ['stub_blk_free']},
 'trusted_base': [
  'block manager stub behind ubuf_mgr.ubuf_control / ubuf_free (stub_blk_control): UBUF_DUP of a detached segment yields a segment with the same window on the same area or fails, UBUF_SINGLE answers arbitrarily OK or BUSY, MAP returns the segment\'s buffer, UBUF_SPLICE_BLOCK records its arguments, free records the chain released; the real manager (lib/upipe/ubuf_block_mem.c, ubuf_block_common.h) is verified against the same facts in the block_mem unit',
 ],
 'assumptions': [
  'block: shape-bounded — chains of 1..2 segments (quick) / 3 segments (thorough), every position of the cached segment a separate run, second block of 1 (quick) / 2 (thorough) segments; windows (offset, size <= 2^20 each, including empty segments), areas (4, shared or not), the cached-end hint, per-segment map flag and all int arguments (negative, -1, boundary, out of range) symbolic',
  'block: the view is a sequence of locations (area, octet offset): operations of this unit re-window and never copy, so preserved locations are preserved content; bytes of areas are not in any assigns clause (frame: structure operations never write to an area)',
  'ubuf_block_truncate: offset >= 0 (its documentation, unlike its neighbours\', offers no negative offsets); ubuf_block_prepend: prepend >= 0 (the code asserts it)',
  'history quantification: WF holds after alloc (block_mem unit) and every operation has requires WF ensures WF; the induction over operation sequences is a meta-argument',
 ],
 'not_covered': ['ubuf_block.h accessors that copy or compare bytes over several segments (peek, extract, iovec, scan, find, compare, equal, match, copy, merge, extract_bits) are not under contract in this unit'],
 'groups': groups,
}
json.dump(u, open(os.path.join(V, 'contracts', 'block', 'unit.json'), 'w'), indent=1)
print(len(groups), 'groups', sum(1 for g in groups if g['tier'] == 'quick'), 'quick')
