#!/usr/bin/env python3
"""writes contracts/flow_<pipe>/{contract.c,unit.json} from include/vpipeflow.h for each small pipe"""
import json, os
V = os.path.dirname(os.path.dirname(os.path.abspath(__file__)))
# name, SIG macro, input fn, has_output, extra state (C statements using `upipe`)[, source file stem, extra defines]
PIPES = [
 ('skip', 'UPIPE_SKIP_SIGNATURE', 'upipe_skip_input', 1, 'VIN(size_t, opt_offset); upipe_skip_from_upipe(upipe)->offset = opt_offset; g_opt_offset = opt_offset; g_rsz_calls = 0;', 'skip',
  '/* skip: the payload loses exactly the configured number of leading octets — one uref_block_resize(offset, -1) on the buffer (the block operation is under contract in C03), nothing else changes */\nstatic size_t g_opt_offset;\n#define VP_CONTENT_OK(in, out, up) (spec_same_uref(in, out, 0, 0) && g_rsz_calls == 1 && g_rsz_uref == g_in_uref && g_rsz_skip == (int)g_opt_offset && g_rsz_size == -1)',
  '#include <upipe/uref_block.h>\n#include "vstub_choice.h"\nstatic int g_rsz_calls, g_rsz_skip, g_rsz_size; static struct uref *g_rsz_uref;\nstatic int stub_uref_block_resize(struct uref *u, int skip, int new_size) { g_rsz_calls++; g_rsz_uref = u; g_rsz_skip = skip; g_rsz_size = new_size; return VS_CHOICE(resize_ret) & 1 ? UBASE_ERR_NONE : UBASE_ERR_INVALID; }\n#define uref_block_resize stub_uref_block_resize'),
 ('idem', 'UPIPE_IDEM_SIGNATURE', 'upipe_idem_output', 1, ''),
 ('null', 'UPIPE_NULL_SIGNATURE', 'upipe_null_input', 0, 'VIN(uint8_t, opt_dump); upipe_null_from_upipe(upipe)->dump = (opt_dump & 1) != 0;'),
 ('htons', 'UPIPE_HTONS_SIGNATURE', 'upipe_htons_input', 1, 'VIN_ARR(uint8_t, hbytes, HN); VIN(uint8_t, hlen); VIN(uint8_t, hcut); VIN(uint8_t, hsh); VIN(uint8_t, hcf); VASSUME(hlen >= 1 && hlen <= HN && hcut <= hlen); for (int k_ = 0; k_ < HN; k_++) { g_hb[k_] = g_hb_in[k_] = hbytes[k_]; } g_hlen = hlen; g_hcut = hcut; g_hshared = (hsh & 1) != 0; g_hcopy_fails = (hcf & 1) != 0; g_hmaps = g_hunmaps = g_hcopies = g_hbad = 0;', 'htons',
  '/* htons: octets of each 16-bit word swapped over the whole payload (a trailing odd octet untouched), whatever the segmentation;\n * everything else unchanged (the payload object may be replaced by a copy).  (Seen, not part of C05: when the first mapping succeeds on a\n * segmented or unaligned block the pipe replaces the payload by a copy without unmapping the original first.) */\nstatic inline bool spec_htons(const struct uref *in, const struct uref *out)\n{\n    if (!spec_same_uref(in, out, VF_UBUF, 0) || g_hbad != 0) return false;\n    for (size_t k = 0; k < HN; k++) {\n        if (k >= g_hlen) break;\n        uint8_t e = (k % 2 == 0) ? (k + 1 < g_hlen ? g_hb_in[k + 1] : g_hb_in[k]) : g_hb_in[k - 1];\n        if (g_hb[k] != e) return false;\n    }\n    return true;\n}\n#define VP_CONTENT_OK(in, out, up) spec_htons(in, out)',
  '/* htons: the block operations the pipe uses are replaced by their byte-string contract (C03) over a payload of at most HN\n * octets cut into one or two segments at a symbolic position, possibly shared (write refused) so that the pipe has to copy */\n#include <upipe/uref_block.h>\n#include "vstub_choice.h"\n#define HN 6\nstatic uint8_t g_hb[HN + 2], g_hb_in[HN]; static size_t g_hlen, g_hcut; static bool g_hshared, g_hcopy_fails; static int g_hmaps, g_hunmaps, g_hcopies, g_hbad;\nstatic struct ubuf *vs_make_ubuf(void);\nstatic int stub_h_size(struct uref *u, size_t *s) { if (u->ubuf == NULL) return UBASE_ERR_INVALID; *s = g_hlen; return UBASE_ERR_NONE; }\nstatic int stub_h_write(struct uref *u, int offset, int *size_p, uint8_t **buf_p)\n{\n    if (u->ubuf == NULL || offset < 0 || (size_t)offset >= g_hlen) return UBASE_ERR_INVALID;\n    if (g_hshared) return UBASE_ERR_BUSY;\n    size_t end = (g_hcut > (size_t)offset && g_hcut < g_hlen) ? g_hcut : g_hlen, avail = end - (size_t)offset;      /* a mapping never crosses a segment */\n    if (*size_p == -1 || (size_t)*size_p > avail) *size_p = (int)avail;\n    *buf_p = g_hb + offset; g_hmaps++;\n    return UBASE_ERR_NONE;\n}\nstatic int stub_h_unmap(struct uref *u, int offset) { g_hunmaps++; return UBASE_ERR_NONE; }\nstatic struct ubuf *stub_h_copy(struct ubuf_mgr *mgr, struct ubuf *ubuf, int skip, int size)\n{\n    g_hcopies++; if (skip != 0 || size < 0 || (size_t)size != g_hlen) g_hbad++;\n    if (g_hcopy_fails) return NULL;\n    struct ubuf *n = vs_make_ubuf(); if (n == NULL) return NULL;\n    g_hcut = 0; g_hshared = false;                   /* a copy is one contiguous segment with a single owner, same octets */\n    return n;\n}\n#define uref_block_size stub_h_size\n#define uref_block_write stub_h_write\n#define uref_block_unmap stub_h_unmap\n#define ubuf_block_copy stub_h_copy'),
 ('probe_uref', 'UPIPE_PROBE_UREF_SIGNATURE', 'upipe_probe_uref_input', 1, ''),
 ('delay', 'UPIPE_DELAY_SIGNATURE', 'upipe_delay_input', 1, 'VIN(int64_t, opt_delay); upipe_delay_from_upipe(upipe)->delay = opt_delay; g_opt_delay = opt_delay;', 'delay',
  '/* delay: the buffer that goes out is the one that came in after uref_clock_add_date_{sys,prog,orig}(delay) — nothing else changes */\nstatic int64_t g_opt_delay;\nstatic inline bool spec_delay(const struct uref *in, const struct uref *out)\n{\n    struct uref e = *in;\n    if (g_opt_delay) { uref_clock_add_date_sys(&e, g_opt_delay); uref_clock_add_date_prog(&e, g_opt_delay); uref_clock_add_date_orig(&e, g_opt_delay); }\n    return spec_same_uref(&e, out, 0, 0);\n}\n#define VP_CONTENT_OK(in, out, up) spec_delay(in, out)'),
 ('setattr', 'UPIPE_SETATTR_SIGNATURE', 'upipe_setattr_input', 1, '', 'setattr', '#define VP_DICT_OPT\n#define VP_DICT_FIELD(up) upipe_setattr_from_upipe(up)->dict\n#define VP_DICT_SET(up, d) _upipe_setattr_set_dict(up, d)\n#define VP_DICT_GET(up, p) _upipe_setattr_get_dict(up, p)'),
 ('setflowdef', 'UPIPE_SETFLOWDEF_SIGNATURE', 'upipe_setflowdef_input', 1, '', 'setflowdef', '#define VP_DICT_OPT\n#define VP_DICT_FIELD(up) upipe_setflowdef_from_upipe(up)->dict\n#define VP_DICT_SET(up, d) _upipe_setflowdef_set_dict(up, d)\n#define VP_DICT_GET(up, p) _upipe_setflowdef_get_dict(up, p)'),
 ('match_attr', 'UPIPE_MATCH_ATTR_SIGNATURE', 'upipe_match_attr_input', 1, ''),
 ('noclock', 'UPIPE_NOCLOCK_SIGNATURE', 'upipe_noclock_input', 1, '', 'noclock',
  '/* noclock: the system date becomes the program date (uref_clock_set_date_sys with the program date and type: C11 accessor), nothing else changes */\nstatic inline bool spec_noclock(const struct uref *in, const struct uref *out)\n{\n    struct uref e = *in; int type; uint64_t date;\n    uref_clock_get_date_prog(&e, &date, &type); uref_clock_set_date_sys(&e, date, type);\n    return spec_same_uref(&e, out, 0, 0);\n}\n#define VP_CONTENT_OK(in, out, up) spec_noclock(in, out)'),
 ('nodemux', 'UPIPE_NODEMUX_SIGNATURE', 'upipe_nodemux_input', 1, 'VIN(uint8_t, opt_inited); upipe_nodemux_from_upipe(upipe)->inited = (opt_inited & 1) != 0; g_opt_inited = (opt_inited & 1) != 0;', 'nodemux',
  '/* nodemux: the first buffer gets uref_clock_set_dts_prog(NODEMUX_CLOCK_MIN), later ones pass unchanged */\nstatic bool g_opt_inited;\nstatic inline bool spec_nodemux(const struct uref *in, const struct uref *out)\n{\n    struct uref e = *in;\n    if (!g_opt_inited) uref_clock_set_dts_prog(&e, NODEMUX_CLOCK_MIN);\n    return spec_same_uref(&e, out, 0, 0);\n}\n#define VP_CONTENT_OK(in, out, up) spec_nodemux(in, out)'),
 ('setrap', 'UPIPE_SETRAP_SIGNATURE', 'upipe_setrap_input', 1, 'VIN(uint64_t, opt_rap); upipe_setrap_from_upipe(upipe)->rap_sys = opt_rap; g_opt_rap = opt_rap;', 'setrap',
  '/* setrap: uref_clock_set_rap_sys(rap) when a RAP is configured (refused when it is after the clock reference), nothing else */\nstatic uint64_t g_opt_rap;\nstatic inline bool spec_setrap(const struct uref *in, const struct uref *out)\n{\n    struct uref e = *in;\n    if (g_opt_rap != UINT64_MAX) uref_clock_set_rap_sys(&e, g_opt_rap);\n    return spec_same_uref(&e, out, 0, 0);\n}\n#define VP_CONTENT_OK(in, out, up) spec_setrap(in, out)'),
 ('multicat_probe', 'UPIPE_MULTICAT_PROBE_SIGNATURE', 'upipe_multicat_probe_input', 1, 'VIN(uint64_t, opt_rot); VIN(uint64_t, opt_roff); VIN(uint64_t, opt_idx); VASSUME(opt_rot >= 1); upipe_multicat_probe_from_upipe(upipe)->rotate = opt_rot; upipe_multicat_probe_from_upipe(upipe)->rotate_offset = opt_roff; upipe_multicat_probe_from_upipe(upipe)->idx = opt_idx;'),
 ('agg', 'UPIPE_AGG_SIGNATURE', 'upipe_agg_input', 1, 'VIN(uint8_t, has_agg); VIN(size_t, agg_size); VIN(size_t, agg_osize); VIN(size_t, agg_isize); upipe_agg_from_upipe(upipe)->output_size = agg_osize; upipe_agg_from_upipe(upipe)->input_size = agg_isize; if (has_agg & 1) { struct uref *a_ = vs_make_uref(false, 0, 1); VASSUME(a_ != NULL); a_->ubuf = vs_make_ubuf(); VASSUME(a_->ubuf != NULL); upipe_agg_from_upipe(upipe)->aggregated = a_; upipe_agg_from_upipe(upipe)->size = agg_size; g_extra_held = 1; }', 'aggregate', '#define VP_ONE_TO_ONE 0\n#define VP_MAX_HELD 0'),
]
for row in PIPES:
    name, sig, inp, has_out, extra = row[:5]
    stem = row[5] if len(row) > 5 else name
    xdef = row[6] if len(row) > 6 else ''
    pre = row[7] if len(row) > 7 else ''
    d = os.path.join(V, 'contracts', 'flow_' + name)
    os.makedirs(d, exist_ok=True)
    src = '''/* GENERATED by lib/genpipeflow.py — contract unit: lib/upipe-modules/upipe_%(n)s.c (included whole), template include/vpipeflow.h */
#include "vpipeflow_pre.h"
%(pre)s
#include "lib/upipe-modules/upipe_%(stem)s.c"
%(xdef)s
#define VP_STRUCT upipe_%(n)s
#define VP_MGR upipe_%(n)s_mgr
#define VP_HAS_OUTPUT %(ho)d
#define VP_INIT_MGR() VPIPE_INIT_MGR(upipe_%(n)s_mgr, %(sig)s, upipe_%(n)s_alloc, %(inp)s, upipe_%(n)s_control)
/* the real allocator, called directly (no function-pointer dispatch in the entry: the returned pointer stays concrete) */
static struct upipe *vp_call_alloc(struct upipe_mgr *mgr, struct uprobe *uprobe, uint32_t signature, ...)
{
    va_list args; va_start(args, signature);
    struct upipe *upipe = upipe_%(n)s_alloc(mgr, uprobe, signature, args);
    va_end(args);
    return upipe;
}
#define VP_ALLOC(mgr, probe) vp_call_alloc(mgr, probe, UPIPE_VOID_SIGNATURE)
#define VP_EXTRA_STATE(upipe) %(extra)s
#include "vpipeflow.h"
''' % {'stem': stem, 'pre': pre, 'xdef': xdef, 'n': name, 'ho': has_out, 'sig': sig, 'inp': inp, 'extra': extra or 'do { } while (0)'}
    open(os.path.join(d, 'contract.c'), 'w').write(src)
    groups = []
    for op in ['alloc', 'input', 'set_flow_def'] + (['set_output'] if has_out else []) + ['release'] + (['opt_dict'] if 'VP_DICT_OPT' in xdef else []):
        props = {'alloc': ['C04'], 'input': ['C04', 'C05', 'C01'], 'set_flow_def': ['C04', 'C20'], 'set_output': ['C04', 'C01', 'C20'], 'release': ['C04', 'C01'], 'opt_dict': ['C20', 'C01']}[op]
        for wo in ([0, 1] if (has_out and op != 'alloc') else [0]):
            groups.append({'name': op + ('_out%d' % wo if has_out and op != 'alloc' else ''), 'entry': 'h_' + op, 'enforce': None, 'dfcc': False,
                           'defines': ['VP_WITH_OUTPUT=%d' % wo], 'unwind': (9 if name == 'htons' else 6), 'unwindset': ['stub_udict_control.0:18', 'strlen.0:18'], 'timeout': 600, 'properties': props,
                           'object_bits': 12, 'cost': 2, 'cbmc_flags': [] if op == 'alloc' else ['--no-malloc-may-fail']})
    if has_out and name in ('idem', 'probe_uref', 'delay', 'noclock', 'nodemux', 'setrap', 'multicat_probe', 'setflowdef', 'skip'):
        groups.append({'name': 'input_lazy', 'entry': 'h_input', 'enforce': None, 'dfcc': False, 'defines': ['VP_WITH_OUTPUT=0', 'VP_LAZY=1'], 'unwind': 6,
                       'unwindset': ['stub_udict_control.0:18', 'strlen.0:18'], 'timeout': 600, 'properties': ['C05', 'C04'], 'object_bits': 12, 'cost': 2, 'cbmc_flags': ['--no-malloc-may-fail']})
    u = {'unit': 'flow_' + name, 'properties': ['C04'], 'source': 'contract.c',
         'files': ['lib/upipe-modules/upipe_%s.c' % stem, 'include/upipe/upipe_helper_output.h (instantiated by the pipe)', 'include/upipe/upipe_helper_void.h',
                   'include/upipe/upipe.h (upipe_input / upipe_control / upipe_release brackets)', 'include/upipe/uref.h (uref_free, uref_dup)'],
         'fp': {'upipe_alloc': ['upipe_%s_alloc' % name], 'upipe_input': [inp, 'stub_out_input'], 'upipe_control': ['upipe_%s_control' % name, 'stub_out_control'],
                'cb': ['upipe_%s_dead_urefcount' % name, 'stub_out_dead'], 'uprobe_throw': ['stub_probe_throw', 'stub_probe_lazy_tpl']},
         'trusted_base': ['stubs/vstub_pipe.h: recording probe (returns any error code, keeps no pointer), recording downstream pipe (accepts or rejects a flow definition arbitrarily, owns and frees the buffers it receives), counting uref/udict/ubuf managers with arbitrary answers (over-approximation of every well-behaved manager)',
                          'dictionary comparison replaced by its contract (equal iff same content id); the real udict_cmp is under contract in the dictionary units (C10)'],
         'assumptions': ['flow_%s: every operation is checked from an arbitrary state satisfying INV_out (built from the state the real allocator leaves by assigning the output helper\'s fields: output in {none, the stub}, definition present or not, the three output states, what the output last accepted in {nothing, the current definition, another one}); request list empty' % name,
                         'contracts are checked by assume/assert entries (no DFCC instrumentation: variadic control + function-pointer dispatch); frame stated through the ghost counters of the stubs',
                         'history quantification: induction over the per-operation contracts (requires INV_out ensures INV_out) is a meta-argument; pipes not listed are not covered'],
         'not_covered': [],
         'groups': groups}
    json.dump(u, open(os.path.join(d, 'unit.json'), 'w'), indent=1)
print('generated', len(PIPES), 'flow units')
