/* blockspec.h — abstract view of a segmented block (shared by the block and block_mem units)
 * view(head)[i] = (area, octet offset) of octet i; WF(head); snapshots of a chain at entry. Requires: MAXW, SB(), g_i,
 * VSPEC_MGR (the manager every segment must belong to). */
#ifndef BLOCKSPEC_H
#define BLOCKSPEC_H
struct vsnap { int n; struct ubuf *node[MAXW]; size_t off[MAXW], size[MAXW]; uint8_t *buf[MAXW]; size_t total; };
static size_t g_i;                      /* ghost position: statements about "octet g_i" hold for every octet */
/* number of segments, -1 if the chain does not end within the walk bound */
#define SPEC_FUNCS(S) \
static inline int S(spec_len)(struct ubuf *h) \
{ \
    int n = 0; \
    for (int k = 0; k < MAXW; k++) { if (h == NULL) return n; n++; h = SB(h)->next_ubuf; } \
    return h == NULL ? n : -1; \
} \
static inline void S(spec_snap)(struct vsnap *s, struct ubuf *h) \
{ \
    s->n = 0; s->total = h != NULL ? SB(h)->total_size : 0; \
    for (int k = 0; k < MAXW; k++) { \
        if (h == NULL) break; \
        s->node[k] = h; s->off[k] = SB(h)->offset; s->size[k] = SB(h)->size; s->buf[k] = SB(h)->buffer; s->n = k + 1; \
        h = SB(h)->next_ubuf; \
    } \
}
#define ID(x) x
#define HP(x) H_##x
SPEC_FUNCS(ID)
SPEC_FUNCS(HP)          /* copies for the entries (contract and entry call trees are kept apart) */

static inline bool spec_snap_is(const struct vsnap *s, struct ubuf *h)
{
    if (spec_len(h) != s->n || s->n < 1) return false;
    if (SB(h)->total_size != s->total) return false;
    for (int k = 0; k < MAXW; k++) {
        if (k >= s->n) break;
        if (s->node[k] != h || s->off[k] != SB(h)->offset || s->size[k] != SB(h)->size || s->buf[k] != SB(h)->buffer) return false;
        h = SB(h)->next_ubuf;
    }
    return true;
}
static inline bool spec_wf(struct ubuf *head)
{
    if (head == NULL) return false;
    struct ubuf_block *hb = SB(head);
    size_t sum = 0; bool cached_ok = false, end_ok = hb->cached_end_ubuf == NULL;
    struct ubuf *u = head;
    for (int k = 0; k < MAXW; k++) {
        if (u == NULL) break;
        if (u->mgr != VSPEC_MGR) return false;
        if (u == hb->cached_ubuf && hb->cached_offset == sum) cached_ok = true;
        if (u == hb->cached_end_ubuf) end_ok = true;
        sum += SB(u)->size;
        u = SB(u)->next_ubuf;
    }
    return u == NULL && cached_ok && end_ok && sum == hb->total_size;
}
/* location of octet i of the current block / of a snapshot; false if i is not inside */
static inline bool spec_loc(struct ubuf *h, size_t i, uint8_t **base, size_t *off)
{
    for (int k = 0; k < MAXW; k++) {
        if (h == NULL) return false;
        if (i < SB(h)->size) { *base = SB(h)->buffer; *off = SB(h)->offset + i; return true; }
        i -= SB(h)->size; h = SB(h)->next_ubuf;
    }
    return false;
}
static inline bool spec_oloc(const struct vsnap *s, size_t i, uint8_t **base, size_t *off)
{
    for (int k = 0; k < MAXW; k++) {
        if (k >= s->n) return false;
        if (i < s->size[k]) { *base = s->buf[k]; *off = s->off[k] + i; return true; }
        i -= s->size[k];
    }
    return false;
}
/* octet inew of the current block `h` is octet iold of snapshot s */
static inline bool spec_same(struct ubuf *h, size_t inew, const struct vsnap *s, size_t iold)
{
    uint8_t *b1, *b2; size_t o1, o2;
    return spec_loc(h, inew, &b1, &o1) && spec_oloc(s, iold, &b2, &o2) && b1 == b2 && o1 == o2;
}
/* the block is exactly what it was: same length, same octet g_i */
static inline bool spec_unchanged(struct ubuf *h, const struct vsnap *s)
{
    return SB(h)->total_size == s->total && (g_i >= s->total || spec_same(h, g_i, s, g_i));
}
/* normalised (offset, size) request on a block of `total` octets: 0 <= o, 0 <= n, o + n <= total */
static inline bool spec_range(size_t total, int offset, int size, size_t *o, size_t *n)
{
    int64_t oo = offset < 0 ? (int64_t)total + offset : (int64_t)offset;
    if (oo < 0 || oo > (int64_t)total) return false;
    int64_t nn = size == -1 ? (int64_t)total - oo : (int64_t)size;
    if (nn < 0 || oo + nn > (int64_t)total) return false;
    *o = (size_t)oo; *n = (size_t)nn;
    return true;
}
static inline bool H_range(size_t total, int offset, int size)     /* entry-side copy of spec_range */
{
    int64_t oo = offset < 0 ? (int64_t)total + offset : (int64_t)offset;
    if (oo < 0 || oo > (int64_t)total) return false;
    int64_t nn = size == -1 ? (int64_t)total - oo : (int64_t)size;
    return nn >= 0 && oo + nn <= (int64_t)total;
}
/* position (start) of segment `seg` in the current chain, (size_t)-1 if not on it */
static inline size_t spec_start(struct ubuf *h, struct ubuf *seg)
{
    size_t sum = 0;
    for (int k = 0; k < MAXW; k++) {
        if (h == NULL) break;
        if (h == seg) return sum;
        sum += SB(h)->size; h = SB(h)->next_ubuf;
    }
    return (size_t)-1;
}

#endif
