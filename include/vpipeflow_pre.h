/* vpipeflow_pre.h — included before the pipe's .c file: the dictionary comparison used by
 * UPIPE_HELPER_OUTPUT's store_flow_def is replaced by its contract (stub_udict_cmp, vpipeflow.h) */
#ifndef VPIPEFLOW_PRE_H
#define VPIPEFLOW_PRE_H
#include <upipe/ubase.h>
#include <upipe/udict.h>
int stub_udict_cmp(struct udict *a, struct udict *b);
#define udict_cmp stub_udict_cmp
/* content comparison of the buffer that came in with the one that went out (defined in vpipeflow.h) */
#include <upipe/uref.h>
#define VF_DATE_SYS 1
#define VF_DATE_PROG 2
#define VF_DATE_ORIG 4
#define VF_RAP_DELAY 8
#define VF_UBUF 16
static inline bool spec_same_uref(const struct uref *a, const struct uref *b, unsigned may, uint64_t flag_mask);
#endif
