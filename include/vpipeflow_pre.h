/* vpipeflow_pre.h — included before the pipe's .c file: the dictionary comparison used by
 * UPIPE_HELPER_OUTPUT's store_flow_def is replaced by its contract (stub_udict_cmp, vpipeflow.h) */
#ifndef VPIPEFLOW_PRE_H
#define VPIPEFLOW_PRE_H
#include <upipe/ubase.h>
#include <upipe/udict.h>
int stub_udict_cmp(struct udict *a, struct udict *b);
#define udict_cmp stub_udict_cmp
#endif
