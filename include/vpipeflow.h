/* vpipeflow.h — contract template for small in-thread pipes built on UPIPE_HELPER_VOID + UPIPE_HELPER_OUTPUT
 * (properties C04, C05, C01).  The unit's source is:
 *      #include "vpipeflow_pre.h"          (dictionary comparison replaced by its contract)
 *      #include "lib/upipe-modules/upipe_X.c"
 *      #define VP_STRUCT upipe_X / VP_MGR upipe_X_mgr / VP_ALLOC(mgr, probe) ... / VP_HAS_OUTPUT 0|1 ...
 *      #include "vpipeflow.h"
 *
 * Representation invariant of the output helper (INV_out), over ghost state kept by the downstream stub:
 *      output_state == VALID  ==>  output != NULL  &&  flow_def != NULL  &&  the output last ACCEPTED a definition
 *                                  and that definition is the pipe's current one (same uref, or same content id).
 * Every operation of the pipe is checked from an ARBITRARY state satisfying INV_out (output connected or not,
 * definition present or not, any of the three states, any option value): requires INV_out, ensures INV_out, and
 *   input        : the buffer is disposed of exactly once (forwarded or freed; double free / use after free are CBMC heap
 *                  obligations), at most one buffer reaches the output and it is the one given (one-to-one pipes),
 *                  and none reaches it unless it had accepted the current definition (gs_out_input_unaccepted/stale == 0);
 *   set_flow_def : no buffer is delivered; a changed definition is not considered accepted any more;
 *   set_output   : the old output is released once and the new one used once, nothing is delivered,
 *                  the new output is not considered to have accepted anything;
 *   alloc        : 'ready' is the first event that is not a log message;
 *   release      : 'dead' exactly once and as the very last event, nothing sent to the output after it, everything
 *                  the pipe held (output reference, flow definition, dictionary) is released exactly once.
 * History quantification is the induction over these per-operation contracts (meta-argument).
 */
#ifndef VPIPEFLOW_H
#define VPIPEFLOW_H
#include "vspec.h"
#include "vstub_pipe.h"

#ifndef VP_ONE_TO_ONE
#define VP_ONE_TO_ONE 1
#endif
#ifndef VP_MAX_HELD
#define VP_MAX_HELD 0
#endif
#define VP_CAT_(a, b) a##b
#define VP_CAT(a, b) VP_CAT_(a, b)
#define VP_S(up) VP_CAT(VP_STRUCT, _from_upipe)(up)

/* dictionary comparison as its contract: equal iff same content id (the real udict_cmp is under contract in C10) */
int stub_udict_cmp(struct udict *a, struct udict *b)
{
    return container_of(a, struct vs_udict, udict)->def_id == container_of(b, struct vs_udict, udict)->def_id ? 0 : 1;
}

/* ---- ghost ------------------------------------------------------------------------------------------ */
static struct upipe *g_pipe;
static struct uref *g_in_uref;                  /* buffer given to input */
static struct uref g_in_copy;                   /* ... and what it held when it was given */
/* C05 "changing only what they are documented to change": the buffer that reaches the output is the one that came in,
 * with the same payload / dictionary objects and the same scalar fields, except those in `may` (bit per field) and the
 * flag bits in `flag_mask`; pipes that do change something define VP_CONTENT_OK with the exact new value */
static inline bool spec_same_uref(const struct uref *a, const struct uref *b, unsigned may, uint64_t flag_mask)
{
    return ((may & VF_UBUF) || a->ubuf == b->ubuf) && a->udict == b->udict && a->mgr == b->mgr && ((a->flags ^ b->flags) & ~flag_mask) == 0 &&
           ((may & VF_DATE_SYS) || a->date_sys == b->date_sys) && ((may & VF_DATE_PROG) || a->date_prog == b->date_prog) &&
           ((may & VF_DATE_ORIG) || a->date_orig == b->date_orig) && a->dts_pts_delay == b->dts_pts_delay && a->cr_dts_delay == b->cr_dts_delay &&
           ((may & VF_RAP_DELAY) || a->rap_cr_delay == b->rap_cr_delay) && a->priv == b->priv;
}
#ifndef VP_CONTENT_OK
#define VP_CONTENT_OK(in, out, upipe) spec_same_uref(in, out, 0, 0)
#endif
static int g_uref_live_old, g_udict_live_old, g_out_refs_old, g_inputs_old, g_freed_old, g_setdef_old;
static bool g_had_output, g_had_def; static int g_state_old;
static int g_extra_held;                         /* buffers held by pipe-specific state (set by VP_EXTRA_STATE) */
static struct uref **g_flow_def_field;           /* &pipe->flow_def, read by the output stub's staleness check */

#if VP_HAS_OUTPUT
/* "the output has accepted the pipe's current definition" */
static inline bool spec_acc_current(struct upipe *upipe)
{
    struct uref *fd = VP_S(upipe)->flow_def;
    return fd != NULL && gs_out_acc_ptr != NULL && (gs_out_acc_ptr == fd || (gs_out_acc_id >= 0 && gs_out_acc_id == vs_def_id(fd)));
}
static inline bool spec_inv_out(struct upipe *upipe)
{
    int st = VP_S(upipe)->output_state;
    if (st != UPIPE_HELPER_OUTPUT_NONE && st != UPIPE_HELPER_OUTPUT_VALID && st != UPIPE_HELPER_OUTPUT_INVALID) return false;
    if (VP_S(upipe)->output != NULL && VP_S(upipe)->output != &gs_out) return false;
    if (st == UPIPE_HELPER_OUTPUT_VALID)
        return VP_S(upipe)->output != NULL && spec_acc_current(upipe);
    return true;
}
#else
static inline bool spec_inv_out(struct upipe *upipe) { return true; }
#endif
static inline bool post_alloc(struct upipe *upipe)
{
    if (upipe == NULL) return gs_ev_ready == 0 && gs_ev_dead == 0;
    return gs_ev_first_nonlog == UPROBE_READY && gs_ev_ready == 1 && gs_ev_dead == 0 && spec_inv_out(upipe)
#if VP_HAS_OUTPUT
           && VP_S(upipe)->output == NULL && VP_S(upipe)->flow_def == NULL && VP_S(upipe)->output_state == UPIPE_HELPER_OUTPUT_NONE
#endif
           ;
}
/* nothing reached the output that it had not accepted the current definition for */
static inline bool spec_no_bad_delivery(void) { return gs_out_input_unaccepted == 0 && gs_out_input_stale == 0 && gs_ev_dead == 0; }
static inline bool post_input(struct upipe *upipe)
{
    int delivered = gs_out_inputs - g_inputs_old;
    if (!spec_inv_out(upipe) || !spec_no_bad_delivery()) return false;
#if VP_ONE_TO_ONE
    if (delivered < 0 || delivered > 1) return false;                       /* one-to-one: never more than one per input */
    if (delivered == 1 && gs_out_last_input != g_in_uref) return false;    /* ... and it is the buffer that came in */
    if (gs_uref_live != g_uref_live_old - 1) return false;                 /* the buffer was disposed of (the output stub frees what it gets) */
#else
    /* regrouping pipe: the buffer may be kept; never more buffers out than in so far, none lost track of */
    if (delivered < 0 || gs_uref_live > g_uref_live_old || gs_uref_live < g_uref_live_old - 1 - g_extra_held) return false;
#endif
#if VP_HAS_OUTPUT
    /* no output, no definition or a refusing output: nothing can have been delivered */
    if ((VP_S(upipe)->output == NULL || VP_S(upipe)->flow_def == NULL) && delivered != 0) return false;
#else
    if (delivered != 0) return false;
#endif
    return true;
}
static inline bool post_set_flow_def(struct upipe *upipe, int ret)
{
    return spec_inv_out(upipe) && spec_no_bad_delivery() && gs_out_inputs == g_inputs_old;
}
#if VP_HAS_OUTPUT
static inline bool post_set_output(struct upipe *upipe, struct upipe *out, int ret)
{
    if (ret != UBASE_ERR_NONE) return false;
    if (VP_S(upipe)->output != out || VP_S(upipe)->output_state != UPIPE_HELPER_OUTPUT_NONE) return false;
    /* references: old output released once, new one used once */
    if ((int)gs_out_rc.refcount != g_out_refs_old - (g_had_output ? 1 : 0) + (out != NULL ? 1 : 0)) return false;
    return gs_out_inputs == g_inputs_old && gs_out_setdef == g_setdef_old && gs_ev_dead == 0;
}
#endif
static inline bool post_release(void)
{
    if (gs_ev_dead != 1 || gs_ev_last != UPROBE_DEAD || gs_ev_after_dead != 0 || gs_out_after_dead != 0) return false;
    /* everything the pipe held has been let go of exactly once */
    if ((int)gs_out_rc.refcount != g_out_refs_old - (g_had_output ? 1 : 0)) return false;
    return gs_uref_live == g_uref_live_old - (g_had_def ? 1 : 0) - g_extra_held && gs_udict_live == g_udict_live_old - (g_had_def ? 1 : 0);
}

/* ---- entries --------------------------------------------------------------------------------------------- */
/* the pipe as its real allocator leaves it, then moved to an arbitrary state satisfying INV_out */
#ifndef VP_WITH_OUTPUT
#define VP_WITH_OUTPUT 0
#endif
#if VP_HAS_OUTPUT
#define VP_BUILD_STATE() \
    uint8_t has_output = VP_WITH_OUTPUT;      /* compile-time case split (-DVP_WITH_OUTPUT=0|1): a symbolic output pointer would make \
                                                 every call through output->mgr undecidable for the symbolic executor */ \
    VIN(uint8_t, has_def); VIN(uint8_t, state); VIN(uint8_t, acc_kind); VIN(uint16_t, def_id); VIN(uint16_t, acc_id); \
    VASSUME(state <= 2 && def_id < 1000 && acc_id < 1000); \
    g_had_output = (has_output & 1) != 0; g_had_def = (has_def & 1) != 0; g_state_old = state; \
    if (VP_WITH_OUTPUT) { VP_S(upipe)->output = &gs_out; gs_out_rc.refcount++; } \
    if (g_had_def) { VP_S(upipe)->flow_def = vs_make_uref(true, def_id, 0); VASSUME(VP_S(upipe)->flow_def != NULL); } \
    VP_S(upipe)->output_state = (enum upipe_helper_output_state)state; \
    /* what the output accepted last: nothing, the current definition (by identity or by content), or another one */ \
    if ((acc_kind & 3) == 1 && g_had_def) { gs_out_acc_ptr = VP_S(upipe)->flow_def; gs_out_acc_id = def_id; } \
    else if ((acc_kind & 3) == 2) { gs_out_acc_ptr = &gs_other_def; gs_out_acc_id = acc_id; } \
    else { gs_out_acc_ptr = NULL; gs_out_acc_id = -1; } \
    g_flow_def_field = &VP_S(upipe)->flow_def; gs_flow_def_field = g_flow_def_field; \
    VP_EXTRA_STATE(upipe); \
    VASSUME(spec_inv_out(upipe))
#else
#define VP_BUILD_STATE() g_had_output = false; g_had_def = false; VP_EXTRA_STATE(upipe)
#endif
#ifndef VP_LAZY
#define VP_LAZY 0
#endif
/* -DVP_LAZY=1 (with VP_WITH_OUTPUT=0): the pipe has no output yet; the application connects one when the pipe asks for it
 * (need_output event), as uprobe_selflow-style probes do: the buffer that triggered the event must still be delivered */
static int g_lazy_calls;
static int stub_probe_lazy_tpl(struct uprobe *uprobe, struct upipe *upipe, int event, va_list args)
{
#if VP_HAS_OUTPUT
    if (event == UPROBE_NEED_OUTPUT && VP_LAZY && upipe == g_pipe && VP_S(upipe)->output == NULL) {
        g_lazy_calls++;
        upipe_set_output(upipe, &gs_out);
        return UBASE_ERR_NONE;
    }
#endif
    return stub_probe_throw(uprobe, upipe, event, args);
}
#define VP_BUILD() \
    vs_reset_all(); VP_INIT_MGR(); g_extra_held = 0; g_lazy_calls = 0; if (VP_LAZY) gs_probe.uprobe_throw = stub_probe_lazy_tpl; \
    struct upipe *upipe = VP_ALLOC(&VP_MGR, &gs_probe); \
    VASSUME(upipe != NULL); g_pipe = upipe; \
    VP_BUILD_STATE(); \
    g_uref_live_old = gs_uref_live; g_udict_live_old = gs_udict_live; g_out_refs_old = (int)gs_out_rc.refcount; \
    g_inputs_old = gs_out_inputs; g_freed_old = gs_uref_freed; g_setdef_old = gs_out_setdef

void h_alloc(void)
{
    vs_reset_all(); VP_INIT_MGR();
    struct upipe *upipe = VP_ALLOC(&VP_MGR, &gs_probe);
    VPOST(post_alloc(upipe));
    VCANARY();
}
void h_input(void)
{
    VP_BUILD();
    VIN(uint8_t, in_dict); VIN(uint16_t, in_id); VIN(uint8_t, in_ubuf); VIN(uint64_t, in_v);
    struct uref *uref = vs_make_uref((in_dict & 1) != 0, in_id, in_v); VASSUME(uref != NULL);
    if (in_ubuf & 1) { uref->ubuf = vs_make_ubuf(); VASSUME(uref->ubuf != NULL); }
    g_in_uref = uref; g_in_copy = *uref; g_uref_live_old = gs_uref_live;
    upipe_input(upipe, uref, NULL);
    VPOST(post_input(upipe));
#if VP_ONE_TO_ONE && VP_HAS_OUTPUT
    VPOST(gs_out_inputs - g_inputs_old != 1 || VP_CONTENT_OK(&g_in_copy, &gs_out_last_copy, upipe));      /* only what the pipe is documented to change */
#if VP_LAZY
    /* an output connected on demand: it is offered the definition and, if it accepts it, gets the buffer (these pipes never drop) */
    VPOST(!g_had_def || (g_lazy_calls == 1 && VP_S(upipe)->output == &gs_out && gs_out_setdef > g_setdef_old));
    VPOST(!g_had_def || gs_ev_fatal > 0 || gs_out_inputs - g_inputs_old == (gs_out_acc_ptr != NULL ? 1 : 0));
#endif
#endif
    VCANARY();
}
void h_set_flow_def(void)
{
    VP_BUILD();
    VIN(uint8_t, nd_dict); VIN(uint16_t, nd_id);
    struct uref *def = vs_make_uref((nd_dict & 1) != 0, nd_id, 0); VASSUME(def != NULL);
#if VP_HAS_OUTPUT
    struct uref *old_def = VP_S(upipe)->flow_def;
#endif
    int ret = upipe_set_flow_def(upipe, def);
    VPOST(post_set_flow_def(upipe, ret));
#if VP_HAS_OUTPUT
    /* C20, flow definition as an option pair: the getter reports what the pipe now announces downstream, twice the same,
     * and touches nothing; after an accepted setter that is (a copy of) what was set, after a rejected one the previous value */
    { struct uref *g1 = (struct uref *)1, *g2 = (struct uref *)1; int setdef0 = gs_out_setdef, in0 = gs_out_inputs, live0 = gs_uref_live;
      int q1 = upipe_get_flow_def(upipe, &g1), q2 = upipe_get_flow_def(upipe, &g2);
      VPOST(q1 == UBASE_ERR_NONE && q2 == UBASE_ERR_NONE && g1 == g2 && g1 == VP_S(upipe)->flow_def);
      VPOST(gs_out_setdef == setdef0 && gs_out_inputs == in0 && gs_uref_live == live0 && spec_inv_out(upipe));
#ifndef VP_DEF_NOT_STORED_VERBATIM
      VPOST(ret != UBASE_ERR_NONE || !(nd_dict & 1) || (g1 != NULL && g1 != def && vs_def_id(g1) == nd_id));
      VPOST(ret == UBASE_ERR_NONE || g1 == old_def);
#endif
    }
#endif
    VCANARY();
}
#if VP_HAS_OUTPUT
void h_set_output(void)
{
    VP_BUILD();
    VIN(uint8_t, to_null);
    struct upipe *out = (to_null & 1) ? NULL : &gs_out;
    int ret = upipe_set_output(upipe, out);
    /* a newly connected output has accepted nothing yet (the stub is one object standing for any output) */
    VPOST(post_set_output(upipe, out, ret));
    /* C20, output as an option pair: the getter returns what was set, twice, takes no reference and sends nothing */
    { struct upipe *g1 = (struct upipe *)1, *g2 = (struct upipe *)1; int refs0 = (int)gs_out_rc.refcount;
      int q1 = upipe_get_output(upipe, &g1), q2 = upipe_get_output(upipe, &g2);
      VPOST(q1 == UBASE_ERR_NONE && q2 == UBASE_ERR_NONE && g1 == out && g2 == out);
      VPOST((int)gs_out_rc.refcount == refs0 && post_set_output(upipe, out, ret)); }
    VCANARY();
}
#endif
#ifdef VP_DICT_OPT
/* dictionary option (C20): an accepted setter stores a copy, the getter returns it and changes nothing, a rejected setter
 * (allocation failure) leaves the previous dictionary in force */
void h_opt_dict(void)
{
    VP_BUILD();
    VIN(uint8_t, had_dict); VIN(uint16_t, old_id); VIN(uint8_t, to_null_dict); VIN(uint16_t, new_id);
    struct uref *old = NULL;
    if (had_dict & 1) { old = vs_make_uref(true, old_id, 11); VASSUME(old != NULL); VP_DICT_FIELD(upipe) = old; }
    struct uref *nd = (to_null_dict & 1) ? NULL : vs_make_uref(true, new_id, 22);
    VASSUME((to_null_dict & 1) || nd != NULL);
    int live0 = gs_uref_live;
    int r1 = VP_DICT_SET(upipe, nd);
    struct uref *got = (struct uref *)1;
    int r2 = VP_DICT_GET(upipe, &got);
    struct uref *got2 = (struct uref *)1;
    int r3 = VP_DICT_GET(upipe, &got2);
    VPOST(r2 == UBASE_ERR_NONE && r3 == UBASE_ERR_NONE && got == got2 && got == VP_DICT_FIELD(upipe));       /* the getter reports the stored value and alters nothing */
    if (r1 == UBASE_ERR_NONE) {
        VPOST(nd == NULL ? got == NULL : (got != NULL && got != nd && vs_def_id(got) == new_id && got->priv == nd->priv));   /* its own copy of what was set */
        VPOST(gs_uref_live == live0 - ((had_dict & 1) ? 1 : 0) + (nd != NULL ? 1 : 0));                                 /* previous one released once, the caller keeps its own */
    } else {
        VPOST(got == old && gs_uref_live == live0);                                                                         /* rejected: the previous value stays in force */
    }
    VPOST(spec_inv_out(upipe));
    VCANARY();
}
#endif
void h_release(void)
{
    VP_BUILD();
    upipe_release(upipe);
    VPOST(post_release());
    VCANARY();
}

#ifdef VENTRY
VMAIN(VENTRY)
#endif
#endif
