/* vopt.h — contracts for "option with a getter and a setter" of a pipe (property C20), generic over the
 * pipe structure.  A unit defines, before including this file:
 *     VO_STRUCT     the private structure type name (struct VO_STRUCT has a member `upipe`)
 *     VO_SIG        the pipe's signature constant
 *     VO_CONTROL    the control function under contract at dispatch level (static int f(upipe, command, va_list))
 * and then instantiates, per option,
 *     VOPT(opt, FT, AT, FIELD, SETFN, GETFN, SETCMD, GETCMD, NULLOK, ACCEPT)
 *       FT field type, AT setter argument type, NULLOK: 1 if the getter tolerates a NULL pointer,
 *       ACCEPT(v): expression telling whether the setter accepts value v (1 when it always does)
 * which declares the contracts of the inner functions SETFN/GETFN and the entries
 *     h_<opt>_set, h_<opt>_get            (inner functions, all of the structure symbolic)
 *     h_<opt>_ctl                         (VO_CONTROL with -DVCMD=SETCMD or GETCMD)
 * The pipe object is a static structure whose every byte is unconstrained except upipe.uprobe / upipe.mgr.
 * Frame: assigns clauses (setter: the field; getter: *p) — "calling a getter never alters the pipe".
 */
#ifndef VOPT_H
#define VOPT_H
#include <string.h>

#define VO_S(p) ((struct VO_STRUCT *)((char *)(p) - offsetof(struct VO_STRUCT, upipe)))
static struct VO_STRUCT g_vo_obj, g_vo_old;
static struct upipe_mgr g_vo_mgr;     /* only the signature is looked at (assert in STRUCTURE##_from_upipe) */
static int g_vo_cmd; static unsigned int g_vo_sig;

#ifdef VNATIVE
/* native replay checks the frame by comparing the whole structure with its entry copy, the option field aside */
#define VO_NATIVE_FRAME(FIELD) do { struct VO_STRUCT c_ = g_vo_obj; c_.FIELD = g_vo_old.FIELD; \
    VPOST(memcmp(&c_, &g_vo_old, sizeof(c_)) == 0 /* nothing but the option changed */); } while (0)
/* every byte distinct-ish, then the fields the counterexample names (vo_obj.<field>) are loaded by the entries */
#define VO_FILL() do { for (size_t i_ = 0; i_ < sizeof(g_vo_obj); i_++) ((uint8_t *)&g_vo_obj)[i_] = (uint8_t)(i_ * 37 + 11); } while (0)
#define VO_LOAD(FIELD) vn_read("vo_obj." #FIELD, &g_vo_obj.FIELD, sizeof(g_vo_obj.FIELD))
#else
#define VO_NATIVE_FRAME(FIELD) do { } while (0)
#define VO_FILL() do { struct VO_STRUCT nondet_vo_obj(void); g_vo_obj = nondet_vo_obj(); } while (0)
#define VO_LOAD(FIELD) do { } while (0)
#endif
#ifndef VO_HAS_SIG
#define VO_HAS_SIG 1      /* local commands carry the pipe signature as first argument; standard ones do not */
#endif
#ifndef VO_EXTRA_BUILD
#define VO_EXTRA_BUILD() do { } while (0)
#endif
#define VO_BUILD() \
    vs_reset_all(); VO_FILL(); \
    struct upipe *upipe = &g_vo_obj.upipe; upipe->uprobe = &gs_probe; upipe->refcount = NULL; \
    VPIPE_INIT_MGR(g_vo_mgr, VO_SIG, NULL, NULL, NULL); upipe->mgr = &g_vo_mgr; \
    VO_EXTRA_BUILD()

#ifndef VNATIVE
#define VOPT_CONTRACTS(opt, FT, AT, PT, FIELD, SETFN, GETFN, SETCMD, GETCMD, NULLOK, ACCEPT) \
static int SETFN(struct upipe *upipe, AT v) \
__CPROVER_requires(upipe == &g_vo_obj.upipe && g_vo_obj.FIELD == g_vo_old.FIELD) \
__CPROVER_assigns(g_vo_obj.FIELD) \
__CPROVER_ensures(post_##opt##_set(upipe, v, __CPROVER_return_value)); \
static int GETFN(struct upipe *upipe, PT *p) \
__CPROVER_requires(upipe == &g_vo_obj.upipe && g_vo_obj.FIELD == g_vo_old.FIELD && (NULLOK || p != NULL) && \
                   (p == NULL || *p == g_##opt##_out_old)) \
__CPROVER_assigns(p != NULL: *p) \
__CPROVER_ensures(post_##opt##_get(upipe, p, __CPROVER_return_value));
#else
#define VOPT_CONTRACTS(opt, FT, AT, PT, FIELD, SETFN, GETFN, SETCMD, GETCMD, NULLOK, ACCEPT)
#endif

#define VOPT(opt, FT, AT, FIELD, SETFN, GETFN, SETCMD, GETCMD, NULLOK, ACCEPT) \
    VOPTX(opt, FT, AT, FT, FIELD, SETFN, GETFN, SETCMD, GETCMD, NULLOK, ACCEPT)
#define VOPTX(opt, FT, AT, PT, FIELD, SETFN, GETFN, SETCMD, GETCMD, NULLOK, ACCEPT) \
static PT g_##opt##_out_old, *g_##opt##_p; static AT g_##opt##_val; \
/* accepted setter: the value is stored; rejected setter: the previous value stays in force */ \
static inline bool post_##opt##_set(struct upipe *upipe, AT v, int ret) \
{ \
    if (ret == UBASE_ERR_NONE) return VO_S(upipe)->FIELD == (FT)v && (ACCEPT(v)); \
    return VO_S(upipe)->FIELD == g_vo_old.FIELD && !(ACCEPT(v)); \
} \
/* getter: reports the stored value, alters nothing */ \
static inline bool post_##opt##_get(struct upipe *upipe, PT *p, int ret) \
{ \
    if (VO_S(upipe)->FIELD != g_vo_old.FIELD) return false; \
    if (p == NULL) return true; \
    return ret == UBASE_ERR_NONE && *p == (PT)g_vo_old.FIELD; \
} \
/* dispatch level: the control function routes the command to the option, checks the signature */ \
static inline bool post_##opt##_ctl(struct upipe *upipe, int command, int ret) \
{ \
    if (VO_HAS_SIG && g_vo_sig != VO_SIG) \
        return ret == UBASE_ERR_UNHANDLED && VO_S(upipe)->FIELD == g_vo_old.FIELD && \
               (g_##opt##_p == NULL || *g_##opt##_p == g_##opt##_out_old); \
    if (command == (SETCMD)) return post_##opt##_set(upipe, g_##opt##_val, ret); \
    return post_##opt##_get(upipe, g_##opt##_p, ret) && (g_##opt##_p == NULL || ret == UBASE_ERR_NONE); \
} \
VOPT_CONTRACTS(opt, FT, AT, PT, FIELD, SETFN, GETFN, SETCMD, GETCMD, NULLOK, ACCEPT) \
void h_##opt##_set(void) \
{ \
    VO_BUILD(); VO_LOAD(FIELD); VIN(AT, v); g_vo_old = g_vo_obj; \
    int ret = SETFN(upipe, v); \
    VPOST(post_##opt##_set(upipe, v, ret)); VO_NATIVE_FRAME(FIELD); VCANARY(); \
} \
void h_##opt##_get(void) \
{ \
    VO_BUILD(); VO_LOAD(FIELD); VIN(bool, nullp); VIN(PT, out); PT *p = (NULLOK && nullp) ? NULL : &out; \
    g_vo_old = g_vo_obj; g_##opt##_out_old = out; \
    int ret = GETFN(upipe, p); \
    VPOST(post_##opt##_get(upipe, p, ret)); VO_NATIVE_FRAME(FIELD); VCANARY(); \
} \
static int call_##opt##_ctl(struct upipe *upipe, int command, ...) \
{ va_list args; va_start(args, command); int ret = VO_CONTROL(upipe, command, args); va_end(args); return ret; } \
void h_##opt##_ctl(void) \
{ \
    VO_BUILD(); VO_LOAD(FIELD); VIN(unsigned int, sig); VIN(AT, v); VIN(bool, nullp); VIN(PT, out); \
    PT *p = (NULLOK && nullp) ? NULL : &out; int command = VCMD; \
    g_vo_old = g_vo_obj; g_vo_cmd = command; g_vo_sig = sig; g_##opt##_val = v; g_##opt##_out_old = out; \
    g_##opt##_p = command == (GETCMD) ? p : NULL; \
    int ret = VO_HAS_SIG ? (command == (GETCMD) ? call_##opt##_ctl(upipe, command, sig, p) : call_##opt##_ctl(upipe, command, sig, v)) \
                         : (command == (GETCMD) ? call_##opt##_ctl(upipe, command, p) : call_##opt##_ctl(upipe, command, v)); \
    VPOST(post_##opt##_ctl(upipe, command, ret)); VO_NATIVE_FRAME(FIELD); VCANARY(); \
}

/* contract of the dispatch function for one option (verification build); VCMD is a compile-time constant */
#ifndef VNATIVE
#define VOPT_CONTROL_CONTRACT(opt, FIELD) \
static int VO_CONTROL(struct upipe *upipe, int command, va_list args) \
__CPROVER_requires(upipe == &g_vo_obj.upipe && command == g_vo_cmd && g_vo_obj.FIELD == g_vo_old.FIELD && \
                   (g_##opt##_p == NULL || *g_##opt##_p == g_##opt##_out_old)) \
__CPROVER_assigns(g_vo_obj.FIELD; g_##opt##_p != NULL: *g_##opt##_p) \
__CPROVER_ensures(post_##opt##_ctl(upipe, command, __CPROVER_return_value));
#else
#define VOPT_CONTROL_CONTRACT(opt, FIELD)
#endif
#define VO_ALWAYS(v) 1
#endif
