/* vspec.h — shared by the verification build (goto-cc, -DVCBMC) and the native
 * replay build (gcc, -DVNATIVE) of every contract unit.
 *
 * A contract unit is ONE source text:
 *   - #include of the real /repo file(s);
 *   - spec predicates in plain C (pre_f, post_f_k) and ghost variables;
 *   - the contract, as a re-declaration of the real function carrying
 *     __CPROVER_requires/ensures/assigns (verification build only);
 *   - an entry h_<group>() that builds the symbolic pre-state from *named*
 *     nondeterministic inputs (VIN…), snapshots ghosts, and calls the function.
 * Under -DVNATIVE the same entry reads the named inputs from a snapshot that the
 * driver extracted from the verifier's counterexample trace, evaluates the same
 * pre_/post_ predicates around the call to the real function and reports which
 * ones fail (so a counterexample is replayed against the real code with the
 * same oracle, under ASan/UBSan).
 */
#ifndef VSPEC_H
#define VSPEC_H
#include <stdint.h>
#include <stddef.h>
#include <stdbool.h>

#ifdef VNATIVE
#include <stdio.h>
#include <stdlib.h>
#include <string.h>
/* snapshot: lines "name decimal" — name is a scalar input or "arr[i]" */
extern const char *vn_snapshot_path;
extern int vn_failed, vn_inadmissible;
static inline void vn_read(const char *name, void *p, size_t n)
{
    memset(p, 0, n);
    FILE *f = fopen(vn_snapshot_path, "r");
    if (!f) { fprintf(stderr, "replay: no snapshot\n"); exit(3); }
    char key[256]; unsigned long long val;
    while (fscanf(f, "%255s %llu", key, &val) == 2)
        if (!strcmp(key, name)) {
            memcpy(p, &val, n < sizeof(val) ? n : sizeof(val));   /* little endian host */
            fclose(f); return;
        }
    fclose(f);
    fprintf(stderr, "replay: input %s not in snapshot, using 0\n", name);
}
static inline void vn_read_quiet(const char *name, void *p, size_t n)
{
    memset(p, 0, n);
    FILE *f = fopen(vn_snapshot_path, "r");
    if (!f) return;
    char key[256]; unsigned long long val;
    while (fscanf(f, "%255s %llu", key, &val) == 2)
        if (!strcmp(key, name)) { memcpy(p, &val, n < sizeof(val) ? n : sizeof(val)); break; }
    fclose(f);
}
static inline void vn_read_arr(const char *name, void *p, size_t esz, size_t cnt)
{
    char key[300];
    for (size_t i = 0; i < cnt; i++) {
        snprintf(key, sizeof(key), "%s[%zu]", name, i);
        vn_read(key, (char *)p + i * esz, esz);
    }
}
#define VIN_ARR(T, name, N) T name[N]; vn_read_arr(#name, name, sizeof(T), N)
#define VIN(T, name)      T name; vn_read(#name, &name, sizeof(name))
#define VASSUME(c)        do { if (!(c)) { fprintf(stderr, "replay: inadmissible pre-state: %s\n", #c); vn_inadmissible = 1; exit(3); } } while (0)
#define VPRE(c)           VASSUME(c)
#define VPOST(c)          do { if (!(c)) { printf("REPLAY-FAIL %s\n", #c); vn_failed = 1; } else printf("REPLAY-OK %s\n", #c); } while (0)
#define VCANARY()         do { } while (0)
/* ghost bound by the precondition to a function of the pre-state: recomputed natively */
#define VGHOST(var, expr)  (var) = (expr)
#define VSAME(p, q)       1
#define VASSERT(c, msg)   do { if (!(c)) { printf("REPLAY-FAIL %s\n", msg); vn_failed = 1; } } while (0)
#define VMAIN(entry) \
    const char *vn_snapshot_path; int vn_failed, vn_inadmissible; \
    int main(int argc, char **argv) { vn_snapshot_path = argc > 1 ? argv[1] : "/dev/null"; \
        entry(); printf(vn_failed ? "REPLAY-RESULT reproduced\n" : "REPLAY-RESULT not-reproduced\n"); \
        return vn_failed ? 1 : 0; }
#else /* verification build */
#define VIN(T, name)      T nondet_##name(void); T name = nondet_##name()
/* array input: one nondet struct so that the trace carries every element; the type
 * and the nondet function are made unique per use (suffix _L<line>, stripped by the driver) */
#define VIN_CAT_(a, b) a##b
#define VIN_CAT(a, b) VIN_CAT_(a, b)
#define VIN_ARR(T, name, N) VIN_ARR_(T, name, N, VIN_CAT(name##_L, __LINE__))
#define VIN_ARR_(T, name, N, u) VIN_ARR__(T, name, N, u)
#define VIN_ARR__(T, name, N, u) struct vinarr_##u { T a[N]; }; struct vinarr_##u nondet_##u(void); \
                          struct vinarr_##u vin_##name = nondet_##u(); T *name = vin_##name.a
#define VASSUME(c)        __CPROVER_assume(c)
#ifdef VHARNESS   /* group without DFCC: the same predicates, assumed / asserted by the entry itself */
#define VPRE(c)           __CPROVER_assume(c)
#define VPOST(c)          __CPROVER_assert(c, "postcondition " #c)
#else
#define VPRE(c)           do { } while (0)      /* pre is assumed by the enforced contract */
#define VPOST(c)          do { } while (0)      /* post is asserted by the enforced contract */
#endif
/* vacuity canary: must be reported FAILED on every run (reachability of the end
 * of the entry under the contract's preconditions). */
#define VGHOST(var, expr)  do { } while (0)
#define VCANARY()         __CPROVER_assert(0, "VCANARY end of entry reachable")
#define VASSERT(c, msg)   __CPROVER_assert(c, msg)
#define VSAME(p, q)       __CPROVER_same_object(p, q)
#define VMAIN(entry)
#endif

#endif
